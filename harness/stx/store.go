// Package stx assembles a real local store exactly as new_blob_access.go does
// (allocator, volatile block list, OldCurrentNewLocationBlobMap, record array,
// hashing key-location map, flat or hierarchical blob access), drives it with
// deterministic schedules in which the harness decides where operations
// interleave (upload source reads, slicers), mirrors every atomic step to the
// Lean store model, and checks C01/C05/C08/C10 statements on what it observes.
package stx

import (
	"github.com/buildbarn/bb-storage/pkg/blobstore/buffer"
	"sync/atomic"
	"context"
	"crypto/sha256"
	"encoding/hex"
	"fmt"
	"github.com/buildbarn/bb-storage/pkg/clock"
	"github.com/buildbarn/bb-storage/pkg/eviction"
	"strconv"
	"strings"
	"sync"
	"time"

	remoteexecution "github.com/bazelbuild/remote-apis/build/bazel/remote/execution/v2"
	"github.com/buildbarn/bb-storage/pkg/blobstore"
	"github.com/buildbarn/bb-storage/pkg/blobstore/local"
	"github.com/buildbarn/bb-storage/pkg/digest"
	"google.golang.org/grpc/codes"
	"google.golang.org/grpc/status"

	"verifharness/bmx"
	"verifharness/hx"
)

// Config is the first line of a script: "#cfg <kind> <policy> <old> <cur> <new> <sector> <sectors> <spare> <alloc> <records> <maxGet> <maxPut> <hashInit> <index>".
type Config struct {
	Kind                    string // flat | flati (flat, instance-aware keys) | hier | ac
	BM                      bmx.Config
	Records, MaxGet, MaxPut int
	HashInit                uint64
	Index                   string // mem | dev
	VCache                  bool   // reads go through a data integrity validation cache (CAS kinds)
}

func (c Config) Line() string {
	b := c.BM
	return fmt.Sprintf("#cfg %s %s %d %d %d %d %d %d %s %d %d %d %d %s", c.Kind, b.Policy, b.Old, b.Cur, b.New, b.Sector, b.SectorsPerBl, b.Spare, b.Alloc,
		c.Records, c.MaxGet, c.MaxPut, c.HashInit, c.indexField())
}

func (c Config) indexField() string {
	if c.VCache {
		return c.Index + "+vc"
	}
	return c.Index
}

func ParseConfig(line string) (Config, bool) {
	w := strings.Fields(line)
	if len(w) != 15 || w[0] != "#cfg" {
		return Config{}, false
	}
	n := func(i int) int { v, _ := strconv.Atoi(w[i]); return v }
	hi, _ := strconv.ParseUint(w[13], 10, 64)
	// the index backend may carry the suffix "+vc": reads go through a data integrity validation cache
	return Config{Kind: w[1], BM: bmx.Config{Policy: w[2], Old: n(3), Cur: n(4), New: n(5), Sector: n(6), SectorsPerBl: n(7), Spare: n(8), Alloc: w[9]},
		Records: n(10), MaxGet: n(11), MaxPut: n(12), HashInit: hi, Index: strings.TrimSuffix(w[14], "+vc"), VCache: strings.HasSuffix(w[14], "+vc")}, true
}

type errLog struct {
	mu   sync.Mutex
	msgs []string
}

func (l *errLog) Log(err error) {
	l.mu.Lock()
	l.msgs = append(l.msgs, err.Error())
	l.mu.Unlock()
}

// Store is one real local store under test.
type Store struct {
	Cfg   Config
	Dev   *hx.MemDevice
	Alloc *bmx.CountingAllocator
	BL    local.BlockList
	LBM   *local.OldCurrentNewLocationBlobMap
	KLM   local.KeyLocationMap
	BA    blobstore.BlobAccess
	Lock  sync.RWMutex
	Log   *errLog
	RBF   *countingRBF
	Gate  *gatedLBM
	VC    *digest.ExistenceCache // the data integrity validation cache, if the store has one

	// FreeHits collects device accesses that touched a block which the allocator had on its free list at that
	// moment (C04: space is not handed out while a reader or writer of it is still active).
	FreeHits []string

	keyIDs map[local.Key]int
}

func NewStore(cfg Config) *Store {
	s := &Store{Cfg: cfg, Log: &errLog{}, keyIDs: map[local.Key]int{}}
	b := cfg.BM
	blockCount := b.Old + b.Cur + b.New + b.Spare
	var rbf blobstore.ReadBufferFactory = blobstore.CASReadBufferFactory
	if cfg.Kind == "ac" {
		rbf = blobstore.ACReadBufferFactory
	} else if cfg.VCache {
		// as new_blob_access.go does when a data integrity validation cache is configured
		s.VC = digest.NewExistenceCache(clock.SystemClock, digest.KeyWithInstance, 1000, time.Hour, eviction.NewLRUSet[string]())
		rbf = blobstore.NewValidationCachingReadBufferFactory(rbf, s.VC)
	}
	s.RBF = &countingRBF{base: rbf}
	var base local.BlockAllocator
	if b.Alloc == "dev" {
		s.Dev = hx.NewMemDevice(blockCount * b.BlockSize())
		base = local.NewBlockDeviceBackedBlockAllocator(s.Dev, s.RBF, b.Sector, int64(b.SectorsPerBl), blockCount, "verif_stx")
		check := func(what string, off int64, n int) {
			free, perBlock, sector, ok := local.VerifFreeBlockOffsets(base)
			if !ok || n == 0 {
				return
			}
			blockBytes := perBlock * int64(sector)
			for _, f := range free {
				if lo, hi := f*int64(sector), f*int64(sector)+blockBytes; off < hi && off+int64(n) > lo {
					s.FreeHits = append(s.FreeHits, fmt.Sprintf("%s of %d bytes at %d hits block [%d,%d), which is on the allocator's free list", what, n, off, lo, hi))
				}
			}
		}
		s.Dev.OnWrite = func(off int64, p []byte) { check("write", off, len(p)) }
		s.Dev.OnRead = func(off int64, n int) { check("read", off, n) }
	} else {
		base = local.NewInMemoryBlockAllocator(b.BlockSize())
	}
	s.Alloc = &bmx.CountingAllocator{Base: base}
	s.BL = local.NewVolatileBlockList(s.Alloc)
	var policy local.BlockListGrowthPolicy
	if b.Policy == "mut" {
		policy = local.NewMutableBlockListGrowthPolicy(b.Cur)
	} else {
		policy = local.NewImmutableBlockListGrowthPolicy(b.Cur, b.New)
	}
	s.LBM = local.NewOldCurrentNewLocationBlobMap(s.BL, policy, s.Log, "verif_stx", int64(b.BlockSize()), b.Old, b.New, 0)
	var arr local.LocationRecordArray
	if cfg.Index == "dev" {
		arr = local.NewBlockDeviceBackedLocationRecordArray(hx.NewMemDevice(cfg.Records*local.BlockDeviceBackedLocationRecordSize), s.LBM)
	} else {
		arr = local.NewInMemoryLocationRecordArray(cfg.Records, s.LBM)
	}
	s.KLM = local.NewHashingKeyLocationMap(arr, cfg.Records, cfg.HashInit, uint32(cfg.MaxGet), cfg.MaxPut, "verif_stx")
	s.Gate = &gatedLBM{LocationBlobMap: s.LBM, lock: &s.Lock}
	switch cfg.Kind {
	case "hier":
		s.BA = local.NewHierarchicalCASBlobAccess(s.KLM, s.Gate, &s.Lock, nil)
	case "flati", "ac":
		s.BA = local.NewFlatBlobAccess(s.KLM, s.Gate, digest.KeyWithInstance, &s.Lock, "verif_stx", nil)
	default:
		s.BA = local.NewFlatBlobAccess(s.KLM, s.Gate, digest.KeyWithoutInstance, &s.Lock, "verif_stx", nil)
	}
	return s
}

// gatedLBM is the LocationBlobMap the blob access sees. When armed, the next Get that reports "needs refresh" - the
// point at which a read gives up its read lock to come back with the write lock - parks until released, so that another
// operation can be queued for the write lock and run in the gap.
type gatedLBM struct {
	local.LocationBlobMap
	lock     *sync.RWMutex // the store's lock
	unlocked atomic.Int64  // getters that were invoked while nobody held the store's lock
	mu      sync.Mutex
	reached chan struct{}
	release chan struct{}
}

func (g *gatedLBM) arm() (reached, release chan struct{}) {
	g.mu.Lock()
	defer g.mu.Unlock()
	g.reached, g.release = make(chan struct{}), make(chan struct{})
	return g.reached, g.release
}

func (g *gatedLBM) disarm() {
	g.mu.Lock()
	g.reached, g.release = nil, nil
	g.mu.Unlock()
}

func (g *gatedLBM) Get(l local.Location) (local.LocationBlobGetter, bool) {
	getter, needsRefresh := g.LocationBlobMap.Get(l)
	if needsRefresh {
		g.mu.Lock()
		reached, release := g.reached, g.release
		g.reached, g.release = nil, nil
		g.mu.Unlock()
		if reached != nil {
			close(reached)
			<-release
		}
	}
	// "Calls to Put() invalidate any of the LocationBlobGetters returned by Get()": a getter has to be invoked before the
	// lock under which the location was looked up is dropped. Nobody holding the lock at that moment (TryLock succeeds)
	// means a concurrent upload could have rotated the blocks in between.
	return func(d digest.Digest) buffer.Buffer {
		if g.lock != nil && g.lock.TryLock() {
			g.lock.Unlock()
			g.unlocked.Add(1)
		}
		return getter(d)
	}, needsRefresh
}

// InitLine is the model's init command for this configuration.
func (c Config) InitLine() string {
	b := c.BM
	return fmt.Sprintf("init %s %d %d %d %d %d %d %d", b.Policy, b.Old, b.Cur, b.New, b.BlockSize(), b.ModelFree(), c.MaxGet, c.MaxPut)
}

// KeyID numbers a key; fresh reports whether it is new (its slots must be declared to the model).
func (s *Store) KeyID(keyString string) (id int, k local.Key, fresh bool) {
	k = local.NewKeyFromString(keyString)
	if id, ok := s.keyIDs[k]; ok {
		return id, k, false
	}
	id = len(s.keyIDs)
	s.keyIDs[k] = id
	return id, k, true
}

// SlotLines declares the real hash slots of a key to the model.
func (s *Store) SlotLines(id int, k local.Key) []string {
	var lines []string
	for a := 0; a < s.Cfg.MaxGet; a++ {
		rk := local.LocationRecordKey{Key: k, Attempt: uint32(a)}
		lines = append(lines, fmt.Sprintf("slot %d %d %d", id, a, rk.Hash(s.Cfg.HashInit)%uint64(s.Cfg.Records)))
	}
	return lines
}

// State renders the observable block-map state like the model's `state` command.
func (s *Store) State() string {
	total := int(s.Alloc.News.Load() - s.Alloc.Releases.Load())
	old := 0
	var b strings.Builder
	s.Lock.RLock()
	for i := 0; i < total; i++ {
		if _, needsRefresh := s.LBM.Get(local.Location{BlockIndex: i}); needsRefresh {
			old++
		}
		ref, _ := s.LBM.BlockIndexToBlockReference(i)
		if _, _, found := s.LBM.BlockReferenceToBlockIndex(ref); found {
			b.WriteByte('1')
		} else {
			b.WriteByte('0')
		}
	}
	s.Lock.RUnlock()
	return fmt.Sprintf("old=%d total=%d released=%d pushes=%d res=%s", old, total, s.Alloc.Releases.Load(), s.Alloc.News.Load(), b.String())
}

// Code canonicalises an error to the model's vocabulary.
func Code(err error) string {
	switch status.Code(err) {
	case codes.NotFound:
		return "not-found"
	case codes.Internal:
		// "The block to which this blob was written, has already been released" is the store's
		// by-design answer to a rotation overtaking a slow write; everything else that is INTERNAL
		// is a data integrity error.
		if strings.Contains(err.Error(), "already been released") || strings.Contains(err.Error(), "disappeared while buffer was read") {
			return "err internal"
		}
		return "err integrity"
	case codes.Unavailable:
		return "err unavailable"
	case codes.InvalidArgument:
		return "err invalid-argument"
	}
	return "err " + status.Code(err).String()
}

func sha(data []byte) string {
	h := sha256.Sum256(data)
	return hex.EncodeToString(h[:])
}

// CASDigest is the SHA-256 digest of data under an instance name.
func CASDigest(instance string, data []byte) digest.Digest {
	return digest.MustNewDigest(instance, remoteexecution.DigestFunction_SHA256, sha(data), int64(len(data)))
}

func bytesLine(b []byte) string {
	w := make([]string, len(b))
	for i, x := range b {
		w[i] = strconv.Itoa(int(x))
	}
	return strings.Join(w, " ")
}

var _ = context.Background
