package stx

import (
	"github.com/prometheus/client_golang/prometheus"
	dto "github.com/prometheus/client_model/go"
)

// discardReader reads the index's discard metrics for storage type "verif_stx"
// (C05 only promises survival while the index reports no discarded entries).
type discardReader struct {
	tooManyAttempts   prometheus.Observer
	tooManyIterations prometheus.Counter
}

func existing(c prometheus.Collector) prometheus.Collector {
	err := prometheus.DefaultRegisterer.Register(c)
	if are, ok := err.(prometheus.AlreadyRegisteredError); ok {
		return are.ExistingCollector
	}
	panic("metric was not registered by the package under test")
}

// NewDiscardReader must be called after at least one hashing key-location map was constructed.
func NewDiscardReader() *discardReader {
	hv := existing(prometheus.NewHistogramVec(prometheus.HistogramOpts{
		Namespace: "buildbarn", Subsystem: "blobstore", Name: "hashing_key_location_map_put_iterations",
		Help:    "Number of iterations it took for Put()",
		Buckets: prometheus.ExponentialBuckets(1.0, 2.0, 8),
	}, []string{"storage_type", "outcome"})).(*prometheus.HistogramVec)
	cv := existing(prometheus.NewCounterVec(prometheus.CounterOpts{
		Namespace: "buildbarn", Subsystem: "blobstore", Name: "hashing_key_location_map_put_too_many_iterations_total",
		Help: "Number of times Put() discarded an entry, because it took the maximum number of iterations, which may indicate the hash table is too small",
	}, []string{"storage_type"})).(*prometheus.CounterVec)
	return &discardReader{tooManyAttempts: hv.WithLabelValues("verif_stx", "TooManyAttempts"), tooManyIterations: cv.WithLabelValues("verif_stx")}
}

func (d *discardReader) total() float64 {
	var m dto.Metric
	d.tooManyAttempts.(prometheus.Metric).Write(&m)
	t := float64(m.GetHistogram().GetSampleCount())
	var m2 dto.Metric
	d.tooManyIterations.Write(&m2)
	return t + m2.GetCounter().GetValue()
}
