package stx

import (
	"fmt"
	"strings"

	"verifharness/bmx"
	"verifharness/hx"
)

// GenScript produces one random case. kinds restricts the store kinds used.
// Corruption is the percentage of operations that inject medium corruption (0 = none).
var Corruption = 0

func GenScript(r *hx.Rand, kinds []string, nops int) []string {
	kind := kinds[r.Intn(len(kinds))]
	bm := bmx.Config{Policy: "imm", Old: r.Range(0, 3), Cur: r.Range(0, 3), New: r.Range(1, 3), Sector: r.PickInt(1, 2, 4, 4, 16),
		SectorsPerBl: r.Range(2, 6), Spare: r.Range(0, 2), Alloc: "dev"}
	if kind == "ac" {
		bm.Policy = "mut"
		bm.New = 1
		bm.Sector = r.PickInt(4, 8, 16)
		bm.SectorsPerBl = r.Range(2, 5)
	}
	if kind == "hier" && r.Chance(1, 3) {
		// a long tail of old blocks: copies made under different instance names can both be old
		bm.Old, bm.Cur, bm.New = r.Range(2, 4), r.Range(0, 1), 1
	}
	if r.Chance(1, 4) {
		bm.Alloc = "mem"
	}
	cfg := Config{Kind: kind, BM: bm, Records: 61, MaxGet: 8, MaxPut: 16, HashInit: r.Uint64(), Index: "mem"}
	if r.Chance(1, 3) {
		cfg.Records, cfg.MaxGet, cfg.MaxPut = r.PickInt(2, 3, 5, 7), r.Range(1, 4), r.Range(1, 6)
	}
	if r.Chance(1, 3) {
		cfg.Index = "dev"
	}
	if kind != "ac" && r.Chance(1, 4) {
		cfg.VCache = true
	}
	bs := bm.BlockSize()
	script := []string{cfg.Line()}
	sizes := []int{0, 1, bm.Sector - 1, bm.Sector, bm.Sector + 1, bs / 2, bs - 1, bs, bs, bs + 1, 2, 3}
	if kind == "ac" {
		sizes = []int{0, 1, 2, bm.Sector, bs / 2, bs - 4, bs - 3, bs - 2}
	}
	var insts []string
	switch kind {
	case "flat":
		insts = []string{"-", "a"}
	case "flati", "ac":
		insts = []string{"a", "b", "-"}
	default:
		insts = []string{"-", "a", "ab", "a/b", "a/b/c", "b", "a-", "a-/b", "a/b-c"}
	}
	if r.Chance(1, 12) {
		// long names that differ only beyond the first 256 bytes of the key string
		switch kind {
		case "flat":
		case "flati", "ac":
			insts = []string{"Z230a", "Z230b", "Z230"}
		default:
			insts = []string{"-", "Z220", "Z220/a", "Z220/b", "Z220/ab", "Z220/a/c", "Z221"}
		}
	}
	nobj := r.Range(3, 7)
	for i := 0; i < nobj; i++ {
		sz := sizes[r.Intn(len(sizes))]
		if sz < 0 {
			sz = 0
		}
		inst := insts[r.Intn(len(insts))]
		if i > 0 && kind != "ac" && kind != "flat" && r.Chance(2, 5) {
			script = append(script, fmt.Sprintf("obj 0 %s alias %d", inst, r.Intn(i)))
		} else {
			script = append(script, fmt.Sprintf("obj %d %s", sz, inst))
		}
	}
	total := nobj
	if (kind == "flat" || kind == "flati") && r.Chance(1, 2) {
		// a composite parent over small children
		var cs []string
		for i := 0; i < r.Range(1, 3); i++ {
			cs = append(cs, fmt.Sprint(r.Intn(nobj)))
		}
		script = append(script, fmt.Sprintf("obj 0 %s parent %s", insts[r.Intn(len(insts))], strings.Join(cs, ",")))
		total++
	}
	if kind == "hier" && r.Chance(1, 8) {
		return genTwoCopies(r, cfg, insts)
	}
	if kind != "ac" && r.Chance(1, 5) {
		return genAging(r, script[:1], kind, insts, bm)
	}
	chunkings := []string{"w", "w", "1", "h", "3", "e", "rw", "rh", "r3", "r1", "Rw", "R3"}
	faults := []string{"none", "none", "none", "none", "none", "none", "short", "long", "badhash", "badhash", "err0", "err1", "cancel"}
	nextOp := 0
	var open []int
	for i := 0; i < nops; i++ {
		switch x := r.Intn(100); {
		case x >= 100-Corruption:
			script = append(script, fmt.Sprintf("corrupt %d %s", r.Intn(total), []string{"s", "s", "r", "c", "w", "a", "q", "k", "d", "D"}[r.Intn(10)]))
		case x == 0 && bm.Alloc == "dev" && Corruption == 0:
			script = append(script, fmt.Sprintf("ioerr %s %d", []string{"r", "w"}[r.Intn(2)], r.Intn(3)))
		case x < 30:
			script = append(script, fmt.Sprintf("put %d %d %d %s %s", nextOp, r.Intn(total), r.Intn(3), chunkings[r.Intn(len(chunkings))], faults[r.Intn(len(faults))]))
			if r.Chance(2, 3) {
				script = append(script, fmt.Sprintf("run %d", nextOp))
			} else {
				open = append(open, nextOp)
			}
			nextOp++
		case x < 45 && len(open) > 0:
			j := r.Intn(len(open))
			if r.Chance(1, 2) {
				script = append(script, fmt.Sprintf("step %d", open[j]))
			} else {
				script = append(script, fmt.Sprintf("run %d", open[j]))
				open = append(open[:j], open[j+1:]...)
			}
		case x < 48 && kind != "ac":
			// a read with an upload started in the gap between its read-locked lookup and its write-locked refresh
			script = append(script, fmt.Sprintf("getx %d %d %d %d %s none", r.Intn(total), nextOp, r.Intn(total), r.Intn(3), chunkings[r.Intn(len(chunkings))]))
			if r.Chance(2, 3) {
				script = append(script, fmt.Sprintf("run %d", nextOp))
			} else {
				open = append(open, nextOp)
			}
			nextOp++
		case x < 70:
			script = append(script, fmt.Sprintf("get %d %s", r.Intn(total), []string{"s", "s", "s", "r", "c", "w", "a", "q", "k", "p", "d", "x", "o"}[r.Intn(13)]))
		case x < 85:
			n := r.Range(1, 3)
			var os []string
			for j := 0; j < n; j++ {
				os = append(os, fmt.Sprint(r.Intn(total)))
			}
			script = append(script, "fm "+strings.Join(os, " "))
		default:
			if total > nobj {
				script = append(script, fmt.Sprintf("comp %d %d %d", nextOp, nobj, r.Intn(3)))
				if r.Chance(1, 2) {
					script = append(script, fmt.Sprintf("run %d", nextOp))
				} else {
					open = append(open, nextOp)
				}
				nextOp++
			} else {
				script = append(script, fmt.Sprintf("get %d", r.Intn(total)))
			}
		}
	}
	return script
}

// genAging is a directed family: one small object (under one or, where the store distinguishes them, two instance
// names), block-sized fillers that age it through new -> current -> old, touches at every stage through Get and
// FindMissing under both names, then more fillers and reads. It makes the refresh paths (copy out of an old block, sync
// from the canonical entry, refresh by FindMissing) and what follows them common instead of rare.
func genAging(r *hx.Rand, script []string, kind string, insts []string, bm bmx.Config) []string {
	bs := bm.BlockSize()
	small := r.PickInt(1, 2, bm.Sector, bm.Sector+1, bs/2)
	if small > bs {
		small = bs
	}
	a, b := insts[r.Intn(len(insts))], insts[r.Intn(len(insts))]
	script = append(script, fmt.Sprintf("obj %d %s", small, a)) // 0
	if kind == "flat" {
		script = append(script, fmt.Sprintf("obj %d %s", small, b)) // 1: another small object
	} else {
		script = append(script, fmt.Sprintf("obj 0 %s alias 0", b)) // 1: same content, other name
	}
	fill := r.PickInt(bs, bs, bs-1, bs/2+1)
	nfill := 4
	for i := 0; i < nfill; i++ {
		script = append(script, fmt.Sprintf("obj %d %s", fill, insts[r.Intn(len(insts))])) // 2..
	}
	op := 0
	put := func(o int) {
		script = append(script, fmt.Sprintf("put %d %d 0 %s none", op, o, []string{"w", "h", "rw"}[r.Intn(3)]), fmt.Sprintf("run %d", op))
		op++
	}
	touch := func() {
		if bm.Alloc == "dev" && Corruption == 0 && r.Chance(1, 3) {
			// a device fault during the touch: the refresh copy or the caller's read fails
			script = append(script, fmt.Sprintf("ioerr %s %d", []string{"w", "r"}[r.Intn(2)], r.Intn(2)))
		}
		for _, o := range r.Perm(2) {
			switch r.Intn(5) {
			case 4:
				// the read gives way to a block-filling upload at its lock hand-over
				script = append(script, fmt.Sprintf("getx %d %d %d 0 w none", o, op, 2+r.Intn(nfill)), fmt.Sprintf("run %d", op))
				op++
			case 0:
				script = append(script, fmt.Sprintf("fm %d", o))
			case 1:
				script = append(script, "fm 0 1")
			default:
				script = append(script, fmt.Sprintf("get %d", o))
			}
		}
	}
	put(0)
	if r.Chance(2, 3) {
		put(1)
	}
	rounds := r.Range(2, 4)
	for k := 0; k < rounds; k++ {
		for i := 0; i < r.Range(1, bm.Old+bm.Cur+bm.New+1); i++ {
			put(2 + r.Intn(nfill))
		}
		if r.Chance(3, 4) {
			touch()
		}
		if r.Chance(1, 3) {
			put(1)
		}
	}
	touch()
	return script
}

// genTwoCopies is a directed family for hierarchical stores: an object is uploaded under one instance name, ages into
// an old block, is uploaded again under another name (a second copy: the canonical entry moves, the first lookup entry
// stays), ages until both copies are old, and is then touched under the first name - twice in a row - and read again
// after old_blocks further allocations. The geometry has a long tail of old blocks so that both copies can be old.
func genTwoCopies(r *hx.Rand, cfg Config, insts []string) []string {
	cfg.BM.Old, cfg.BM.Cur, cfg.BM.New = r.Range(3, 5), r.Range(0, 1), 1
	cfg.BM.Spare = r.Range(1, 2)
	cfg.Records, cfg.MaxGet, cfg.MaxPut = 61, 8, 16
	bs := cfg.BM.BlockSize()
	script := []string{cfg.Line()}
	a := insts[r.Intn(len(insts))]
	b := a
	for b == a {
		b = insts[r.Intn(len(insts))]
	}
	if r.Chance(1, 2) {
		// the second name below the first: a reader under it consults the first name's entry first
		pair := [][2]string{{"-", "a"}, {"a", "a/b"}, {"a", "a/b/c"}, {"a/b", "a/b/c"}, {"a-", "a-/b"}}[r.Intn(5)]
		a, b = pair[0], pair[1]
	}
	small := r.PickInt(1, 2, cfg.BM.Sector, bs/2)
	if small > bs {
		small = bs
	}
	script = append(script, fmt.Sprintf("obj %d %s", small, a), fmt.Sprintf("obj 0 %s alias 0", b)) // 0, 1
	for i := 0; i < 3; i++ {
		script = append(script, fmt.Sprintf("obj %d %s", bs, insts[r.Intn(len(insts))])) // 2..4: one block each
	}
	op := 0
	put := func(o int) {
		script = append(script, fmt.Sprintf("put %d %d 0 w none", op, o), fmt.Sprintf("run %d", op))
		op++
	}
	fills := func(n int) {
		for i := 0; i < n; i++ {
			put(2 + r.Intn(3))
		}
	}
	touch := func(o int) {
		switch r.Intn(3) {
		case 0:
			script = append(script, fmt.Sprintf("get %d", o))
		case 1:
			script = append(script, fmt.Sprintf("fm %d", o))
		default:
			// the read gives way to a block-filling upload between its two locked phases
			script = append(script, fmt.Sprintf("getx %d %d %d 0 w none", o, op, 2+r.Intn(3)), fmt.Sprintf("run %d", op))
			op++
		}
	}
	put(0)
	fills(cfg.BM.Cur + cfg.BM.New + r.Range(0, 1)) // the first copy becomes old
	put(1)                                         // second copy under the other name
	fills(cfg.BM.Cur + cfg.BM.New + r.Range(0, 1)) // the second copy becomes old too
	if r.Chance(1, 2) {
		touch(0)
		touch(0)
		fills(cfg.BM.Old)
		touch(0)
		touch(1)
	} else {
		// read under the second name: its least specific entry is the first, older copy
		touch(1)
		touch(1)
		fills(cfg.BM.Old)
		touch(1)
		touch(0)
	}
	return script
}

// Main is the body of the store-level tests. props lists the property ids whose oracle findings this test reports.
func Main(run *hx.Run, model *hx.Model, label string, props []string, kinds []string, quick, thorough int) {
	// make sure the index metrics exist before reading them
	NewStore(Config{Kind: "flat", BM: bmx.Config{Policy: "imm", Old: 1, Cur: 1, New: 1, Sector: 1, SectorsPerBl: 1, Spare: 1, Alloc: "mem"}, Records: 1, MaxGet: 1, MaxPut: 1, Index: "mem"})
	dr := NewDiscardReader()
	mine := func(f hx.Finding) bool {
		if f.Kind != "oracle" {
			return true
		}
		for _, p := range props {
			if strings.HasPrefix(f.Detail, p+":") {
				return true
			}
		}
		return false
	}
	exec := func(name string, script []string) []hx.Finding {
		if model != nil {
			// fresh model state per case: the init line resets it
		}
		r := RunCase(model, dr, name, script)
		var fs []hx.Finding
		for _, f := range r.Findings {
			if mine(f) {
				fs = append(fs, f)
			}
		}
		return fs
	}
	disagreements, oracles := 0, 0
	handle := func(name string, script []string) {
		r := RunCase(model, dr, name, script)
		var fs []hx.Finding
		for _, f := range r.Findings {
			if mine(f) {
				fs = append(fs, f)
			}
		}
		rotated := false
		for _, l := range r.Impl {
			if strings.Contains(l, "released=") && !strings.Contains(l, "released=0 ") {
				rotated = true
			}
		}
		tr := append([]string{script[0]}, script[1:]...)
		run.Case(tr, rotated, model != nil)
		run.Compared(len(r.Lines))
		for _, l := range script[1:] {
			run.Count("op:" + strings.Fields(l)[0])
		}
		run.Count("kind:" + strings.Fields(script[0])[1])
		for i, l := range r.Lines {
			w := strings.Fields(l)
			if len(w) > 0 && (strings.HasSuffix(w[0], ".begin") || strings.HasSuffix(w[0], ".end")) {
				rep := strings.Fields(r.Impl[i] + " -")[0]
				if r.Impl[i] == "-" && i < len(r.Model) {
					rep = strings.Fields(r.Model[i] + " -")[0]
				}
				run.Count("step:" + w[0] + ":" + rep)
			}
		}
		if len(fs) > 0 {
			first := fs[0]
			for _, f := range fs {
				if f.Kind == "oracle" {
					first = f
					break
				}
			}
			if first.Kind != "oracle" {
				// model and implementation differ: report (and shrink) the first such case only and keep going, so
				// that the oracles get the chance to find an input on which the property itself fails
				disagreements++
				if disagreements > 1 {
					run.Count("disagreement-repeat")
					return
				}
			} else {
				oracles++
			}
			small := hx.Shrink(script, 1, func(sc []string) bool {
				for _, f := range exec(name, sc) {
					if f.What == first.What {
						return true
					}
				}
				return false
			})
			if len(small) < len(script) {
				var f2 []hx.Finding
				for _, f := range exec(name+"/shrunk", small) {
					if f.What == first.What {
						f2 = append(f2, f)
					}
				}
				if len(f2) > 0 {
					fs = f2
				}
			}
			for _, f := range fs {
				run.Report(f)
			}
		}
	}
	if name, script := run.ReplayScript(); script != nil {
		r := RunCase(model, dr, name, script)
		for _, f := range r.Findings {
			run.Report(f)
		}
		for i := range r.Lines {
			fmt.Printf("%-40s impl=%-50s model=%s\n", r.Lines[i], r.Impl[i], r.Model[i])
		}
		return
	}
	for name, script := range run.CorpusScripts() {
		if strings.HasPrefix(script[0], "#cfg ") {
			handle("corpus/"+name, script)
		}
	}
	n := run.Scale(quick, thorough)
	for i := 0; i < n && oracles < 5 && run.Findings() < 12; i++ {
		r := hx.NewRand(run.Seed, label, i)
		handle(fmt.Sprintf("seed%d/case%d", run.Seed, i), GenScript(r, kinds, r.Range(5, 60)))
	}
}
