package stx

import (
	"regexp"
	"bytes"
	"context"
	"fmt"
	"google.golang.org/grpc/codes"
	"google.golang.org/grpc/status"
	"runtime/debug"
	"sort"
	"strconv"
	"strings"
	"time"

	"github.com/buildbarn/bb-storage/pkg/blobstore/local"
	"github.com/buildbarn/bb-storage/pkg/digest"

	"verifharness/hx"
)

// Runner executes one script on a fresh store and on the model.
type Runner struct {
	st      *Store
	model   *hx.Model
	objs    []Object
	alias   []int
	ev      chan event
	pending map[int]*pendingOp
	nextOp  int

	Lines, Impl, Model []string
	Findings           []hx.Finding
	name               string
	script             []string

	// oracle state
	uploads      map[string]map[string]bool // content id -> instance names with a successful upload
	corruptMode  string                     // how the corrupting read of the current corrupt operation consumes its data
	failedUps    map[string]map[string]bool // content id -> instance names with an upload that was answered with an error
	acVersions   map[int]map[string]bool    // object -> successfully uploaded values
	touched      map[int]int64              // object -> NewBlock count at the start of its last successful touch
	touchedClean map[int]bool               // ... and whether that call allocated no block
	corrupted    bool
	hidden       map[int]bool // objects that sat at or below a block in which corruption was detected (until re-uploaded)
	discards     *discardReader
	discardsSeen float64
	corruptions  int // detections so far
	// an armed I/O fault of the data device: the ioCount-th next read ("r") or write ("w") fails once
	noState bool
	ioKind  string
	ioCount int
	ioFired bool
}

func (r *Runner) oracle(prop, what, detail string) {
	for _, f := range r.Findings {
		if f.What == what {
			return
		}
	}
	r.Findings = append(r.Findings, hx.Finding{Kind: "oracle", What: what, Detail: prop + ": " + detail, Case: r.name, Script: r.script,
		Impl: append([]string{}, r.Impl...), Model: append([]string{}, r.Model...)})
}

// m sends one line to the model (if any) and records the pair (line, impl reply, model reply).
func (r *Runner) m(line, impl string) string {
	reply := ""
	if r.model != nil {
		reply = r.model.Step(line)
	}
	r.Lines = append(r.Lines, line)
	r.Impl = append(r.Impl, impl)
	r.Model = append(r.Model, reply)
	if r.model != nil && impl != "-" && impl != reply {
		for _, f := range r.Findings {
			if f.Kind == "disagreement" {
				return reply
			}
		}
		r.Findings = append(r.Findings, hx.Finding{Kind: "disagreement", What: "model/implementation differ",
			Detail: fmt.Sprintf("step %d %q: impl=%q model=%q", len(r.Lines)-1, line, impl, reply), Case: r.name, Script: r.script,
			Impl: append([]string{}, r.Impl...), Model: append([]string{}, r.Model...)})
	}
	return reply
}

// key numbers a key string and declares its slots to the model on first use.
func (r *Runner) key(s string) int {
	id, k, fresh := r.st.KeyID(s)
	if fresh {
		for _, l := range r.st.SlotLines(id, k) {
			r.m(l, "ok")
		}
	}
	return id
}

func (r *Runner) keyFormat() digest.KeyFormat {
	if r.st.Cfg.Kind == "flat" {
		return digest.KeyWithoutInstance
	}
	return digest.KeyWithInstance
}

func (r *Runner) flatKey(obj int) int { return r.key(r.Digest(obj).GetKey(r.keyFormat())) }

func (r *Runner) hierKeys(obj int) (canonical int, lookups []int) {
	d := r.Digest(obj)
	canonical = r.key(d.GetKey(digest.KeyWithoutInstance))
	// the instance names under which an upload makes the object visible to this reader: every component-wise
	// prefix of the reader's name, shortest first - computed here from the name itself, not with the code under test
	inst := r.objs[obj].Instance
	prefixes := []string{""}
	if inst != "" {
		cs := strings.Split(inst, "/")
		for i := range cs {
			prefixes = append(prefixes, strings.Join(cs[:i+1], "/"))
		}
	}
	for _, p := range prefixes {
		pd := digest.MustNewDigest(p, d.GetDigestFunction().GetEnumValue(), d.GetHashString(), d.GetSizeBytes())
		lookups = append(lookups, r.key(pd.GetKey(digest.KeyWithInstance)))
	}
	return
}

// storedUnderPrefix reports whether the real index currently resolves the object under some component-wise prefix
// of the reader's instance name (hierarchical stores): then a read under that name must find it.
func (r *Runner) storedUnderPrefix(obj int) bool {
	d := r.Digest(obj)
	inst := r.objs[obj].Instance
	prefixes := []string{""}
	if inst != "" {
		cs := strings.Split(inst, "/")
		for i := range cs {
			prefixes = append(prefixes, strings.Join(cs[:i+1], "/"))
		}
	}
	r.st.Lock.RLock()
	defer r.st.Lock.RUnlock()
	for _, p := range prefixes {
		pd := digest.MustNewDigest(p, d.GetDigestFunction().GetEnumValue(), d.GetHashString(), d.GetSizeBytes())
		if _, err := r.st.KLM.Get(local.NewKeyFromString(pd.GetKey(digest.KeyWithInstance))); err == nil {
			return true
		}
	}
	return false
}

func joinInts(xs []int) string {
	w := make([]string, len(xs))
	for i, x := range xs {
		w[i] = strconv.Itoa(x)
	}
	return strings.Join(w, " ")
}

func (r *Runner) hier() bool { return r.st.Cfg.Kind == "hier" }

func (r *Runner) state() {
	if r.noState {
		// the implementation is ahead of the model (a read is finishing in its own goroutine): compare later
		return
	}
	if len(r.st.FreeHits) > 0 {
		r.oracle("C04", "the device region of a block on the allocator's free list was accessed by a reader or writer that is still active", r.st.FreeHits[0])
		r.st.FreeHits = nil
	}
	if r.st.Gate != nil && r.st.Gate.unlocked.Swap(0) > 0 {
		r.oracle("C01", "a location looked up under the store's lock was opened after the lock had been released (an upload that rotates blocks in between makes it open another block)",
			"a LocationBlobGetter was invoked while nobody held the lock")
	}
	r.m("state", r.st.State())
}

func (r *Runner) contentID(obj int) string { return sha(r.Content(obj)) }

// componentPrefix reports whether instance a is a component-wise prefix of b.
func componentPrefix(a, b string) bool {
	if a == "" {
		return true
	}
	return a == b || strings.HasPrefix(b, a+"/")
}

// visibleAllowed: may a read of obj legitimately return data?
func (r *Runner) visibleAllowed(obj int) bool {
	if r.st.Cfg.Kind == "ac" {
		return len(r.acVersions[obj]) > 0
	}
	ups := r.uploads[r.contentID(obj)]
	inst := r.objs[obj].Instance
	switch r.st.Cfg.Kind {
	case "flat":
		return len(ups) > 0
	case "flati":
		return ups[inst]
	default:
		for u := range ups {
			if componentPrefix(u, inst) {
				return true
			}
		}
		return false
	}
}

// failedUploadAdmissible tells whether an upload of this object's content that FAILED was made under an instance name
// from which the object would be visible: if the object is visible without any admissible successful upload, that
// failed upload is what made it visible (C01: an upload that fails never becomes visible).
func (r *Runner) failedUploadAdmissible(obj int) bool {
	if r.st.Cfg.Kind == "ac" {
		return false
	}
	inst := r.objs[obj].Instance
	for u := range r.failedUps[r.contentID(obj)] {
		switch r.st.Cfg.Kind {
		case "flat":
			return true
		case "flati":
			if u == inst {
				return true
			}
		default:
			if componentPrefix(u, inst) {
				return true
			}
		}
	}
	return false
}

// invisible reports an object that is visible although visibleAllowed says it must not be.
func (r *Runner) invisible(obj int, verb, detail string) {
	prop := "C01"
	if r.hier() {
		prop = "C10"
	}
	r.oracle(prop, "an object is "+verb+" although no successful upload under an admissible instance name exists", detail)
	if r.hier() && r.failedUploadAdmissible(obj) {
		r.oracle("C01", "an object is "+verb+" under an instance name where only a failed upload of it was made", detail)
	}
	// an upload still in flight may be what made it visible; judged when that upload ends
	for _, op := range r.pending {
		if op.kind == "put" && r.st.Cfg.Kind != "ac" && r.contentID(op.obj) == r.contentID(obj) && op.sawVisible == "" {
			u, inst := r.objs[op.obj].Instance, r.objs[obj].Instance
			if r.st.Cfg.Kind == "flat" || (r.st.Cfg.Kind == "flati" && u == inst) || (r.hier() && componentPrefix(u, inst)) {
				op.sawVisible = verb + ": " + detail
			}
		}
	}
}

// ---------------------------------------------------------------- put

func (r *Runner) afterPutStart(op *pendingOp, size int, e event) {
	begin := ""
	if r.hier() {
		ck, _ := r.hierKeys(op.obj)
		begin = fmt.Sprintf("hput.begin %d %d %d", op.id, ck, size)
	} else {
		begin = fmt.Sprintf("fput.begin %d %d", op.id, size)
	}
	if e.done {
		// finished without ever reading the source: allocation failed
		if r.st.Cfg.Kind == "ac" {
			// proto buffers are not gated: the whole upload ran
			reply := r.m(begin, "-")
			if reply == "ok" || reply == "" {
				r.m(fmt.Sprintf("write %d 0 %s", op.id, bytesLine(r.ACValue(op.obj, op.ver))), "ok")
				copied, impl := 1, e.reply
				if r.ioFired {
					r.ioFired = false
					op.copied, op.ioFailed, copied = false, true, 0
					if impl != "ok" {
						impl = "err copy"
					}
				}
				r.m(fmt.Sprintf("fput.end %d %d %d", op.id, r.flatKey(op.obj), copied), impl)
			} else if reply != e.reply {
				r.m("# put result", e.reply)
			}
			r.finishPut(op, e.reply)
			return
		}
		r.m(begin, e.reply)
		r.finishPut(op, e.reply)
		return
	}
	reply := r.m(begin, "-")
	switch reply {
	case "dedup":
		op.dedup = true
	case "ok", "":
		op.hasTick = true
	default:
		// the model says the allocation fails while the implementation went on reading
		r.m("# put begin", "parked")
	}
	r.state()
}

// stepOp releases one gate of a parked operation.
func (r *Runner) stepOp(id int) {
	op := r.pending[id]
	if op == nil {
		return
	}
	if op.kind == "comp" {
		r.stepComp(op)
		return
	}
	var chunk []byte
	if op.next < len(op.chunks) {
		chunk = op.chunks[op.next]
	}
	r.ioFired = false
	op.resume <- struct{}{}
	e := r.wait()
	if r.ioFired {
		// the device refused a write of this upload's copy: the upload must fail like one whose source failed
		r.ioFired = false
		op.copied = false
		op.ioFailed = true
	}
	if len(chunk) > 0 && op.hasTick {
		r.m(fmt.Sprintf("write %d %d %s", op.id, op.written, bytesLine(chunk)), "ok")
	}
	op.written += len(chunk)
	if !e.done {
		return
	}
	copied := 0
	if op.copied {
		copied = 1
	}
	impl := e.reply
	if !op.copied && impl != "ok" {
		impl = "err copy"
	}
	if r.hier() {
		ck, lks := r.hierKeys(op.obj)
		r.m(fmt.Sprintf("hput.end %d %d %d %d", op.id, ck, lks[len(lks)-1], copied), impl)
	} else {
		r.m(fmt.Sprintf("fput.end %d %d %d", op.id, r.flatKey(op.obj), copied), impl)
	}
	r.finishPut(op, e.reply)
}

func (r *Runner) finishPut(op *pendingOp, reply string) {
	delete(r.pending, op.id)
	if reply == "ok" && op.copied && r.st.Cfg.Kind != "ac" && r.corruptions > op.corruptionsAtStart && r.discards.total() == op.discardsAtStart {
		// a detection happened while this upload was in flight: if the upload is acknowledged, what it stored or
		// referred to must not lie in the quarantined range, i.e. the object resolves now
		resolves := false
		if r.hier() {
			resolves = r.storedUnderPrefix(op.obj)
		} else {
			_, resolves = r.location(op.obj)
		}
		if !resolves {
			r.oracle("C08", "an upload that was in flight when corruption was detected was acknowledged although the object does not resolve (quarantined block)",
				fmt.Sprintf("put of object %d", op.obj))
		}
	}
	if r.st.Cfg.Kind != "ac" {
		if c := op.closed.Load(); c != 1 {
			r.oracle("C04", "the source of an upload was not closed exactly once by the time the upload returned",
				fmt.Sprintf("put of object %d answered %q: source closed %d times", op.obj, reply, c))
		}
	}
	if reply != "ok" && op.sawVisible != "" {
		r.oracle("C01", "an upload that failed was visible to reads or existence checks while it was in flight",
			fmt.Sprintf("put of object %d answered %q; before that: %s", op.obj, reply, op.sawVisible))
	}
	if reply != "ok" && r.st.Cfg.Kind != "ac" {
		id := r.contentID(op.obj)
		if r.failedUps == nil {
			r.failedUps = map[string]map[string]bool{}
		}
		if r.failedUps[id] == nil {
			r.failedUps[id] = map[string]bool{}
		}
		r.failedUps[id][r.objs[op.obj].Instance] = true
	}
	if reply == "ok" {
		if op.ioFailed {
			r.oracle("C01", "an upload whose device write failed was acknowledged", fmt.Sprintf("put of object %d", op.obj))
		} else if !op.copied {
			r.oracle("C01", "an upload whose data does not match its digest or whose source failed was acknowledged",
				fmt.Sprintf("put of object %d acknowledged", op.obj))
		}
		if r.st.Cfg.Kind == "ac" {
			if r.acVersions[op.obj] == nil {
				r.acVersions[op.obj] = map[string]bool{}
			}
			r.acVersions[op.obj][string(r.ACValue(op.obj, op.ver))] = true
			delete(r.hidden, op.obj) // a fresh upload is a new, legitimate location for the key
		} else {
			id := r.contentID(op.obj)
			if r.uploads[id] == nil {
				r.uploads[id] = map[string]bool{}
			}
			r.uploads[id][r.objs[op.obj].Instance] = true
			for o := range r.hidden {
				if r.contentID(o) == id {
					delete(r.hidden, o)
				}
			}
		}
	} else if reply == "err internal" && !r.corrupted {
		// "block released while writing" is legitimate only when enough rotations happened meanwhile;
		// it is compared against the model, not judged here.
	}
	r.state()
}

// ---------------------------------------------------------------- get / find missing

func (r *Runner) checkData(obj int, data []byte, what string) {
	if r.st.Cfg.Kind == "ac" {
		if !r.acVersions[obj][string(data)] {
			r.oracle("C01", "a read returned bytes that no successful upload stored for that key", fmt.Sprintf("%s of object %d: %x", what, obj, data))
		}
		return
	}
	if !bytes.Equal(data, r.Content(obj)) {
		r.oracle("C01", "a read returned bytes that differ from the uploaded object", fmt.Sprintf("%s of object %d: got %x want %x", what, obj, data, r.Content(obj)))
	}
	if !r.visibleAllowed(obj) {
		r.invisible(obj, "visible", fmt.Sprintf("%s of object %d (instance %q)", what, obj, r.objs[obj].Instance))
	}
}

// noteTouch records a successful touch. The guarantee is counted from the lookup inside the call, so blocks the
// call itself allocated afterwards (refreshing this or other objects) count against it: the baseline is the
// NewBlock count at the start of the call. clean = the call allocated no block at all.
func (r *Runner) noteTouch(obj int, newsAtStart int64, discardsAtStart float64) {
	if r.syncDiscards() || r.discards.total() != discardsAtStart {
		// the index reported a discarded entry during this very call (possibly after the object was looked
		// up): C05 promises nothing for this touch
		return
	}
	r.touched[obj] = newsAtStart
	r.touchedClean[obj] = r.st.Alloc.News.Load() == newsAtStart
}

// expectSurvivor: C05 - obj was touched; is it still within its guaranteed window?
func (r *Runner) mustSurvive(obj int) bool {
	if r.syncDiscards() {
		return false
	}
	p0, ok := r.touched[obj]
	if !ok || r.corrupted {
		return false
	}
	if r.syncDiscards() {
		return false
	}
	return r.st.Alloc.News.Load()-p0 <= int64(r.st.Cfg.BM.Old)
}

// syncDiscards looks at the index's discard metrics; when they moved, the C05 guarantee is off for everything
// touched so far (the property holds "provided the index reports no discarded entries").
func (r *Runner) syncDiscards() bool {
	if d := r.discards.total(); d != r.discardsSeen {
		r.discardsSeen = d
		r.touched = map[int]int64{}
		return true
	}
	return false
}

// handover: an upload to start in the gap between a read's read-locked lookup and its write-locked refresh.
type handover struct {
	id, obj, ver    int
	chunking, fault string
}

// getAcrossHandover runs Get(obj) in its own goroutine. If the read decides under the read lock that the object needs
// a refresh, it is held there, the upload h is started (its first locked region queues for the write lock), the read is
// released, the upload's first region runs (possibly rotating blocks) and only then does the read come back with the
// write lock. The upload's begin lines are sent to the model before the read's. used reports whether h was started.
func (r *Runner) getAcrossHandover(obj int, mode string, h *handover) (kind string, data []byte, used bool) {
	reached, release := r.st.Gate.arm()
	type result struct {
		kind string
		data []byte
	}
	res := make(chan result, 1)
	go func() {
		k, d := consumeMode(r.st.BA.Get(context.Background(), r.Digest(obj)), mode, int(r.Digest(obj).GetSizeBytes()))
		res <- result{k, d}
	}()
	select {
	case x := <-res:
		// the read never reached a refresh decision: nothing to interleave
		r.st.Gate.disarm()
		return x.kind, x.data, false
	case <-reached:
	case <-time.After(20 * time.Second):
		panic("deadlock: a read neither finished nor reached its lock hand-over within 20s")
	}
	op, size := r.launchPut(h.id, h.obj, h.ver, h.chunking, h.fault)
	// wait until the upload is queued for the write lock (a pending writer makes TryRLock fail), or has finished
	// without ever needing it
	var early *event
	deadline := time.Now().Add(10 * time.Second)
	for {
		if !r.st.Lock.TryRLock() {
			break
		}
		r.st.Lock.RUnlock()
		select {
		case e := <-r.ev:
			early = &e
		default:
		}
		if early != nil {
			break
		}
		if time.Now().After(deadline) {
			panic("deadlock: an upload neither queued for the store lock nor finished within 10s")
		}
		time.Sleep(20 * time.Microsecond)
	}
	close(release)
	var e event
	if early != nil {
		e = *early
	} else {
		e = r.wait()
	}
	r.noState = true
	r.afterPutStart(op, size, e)
	r.noState = false
	select {
	case x := <-res:
		return x.kind, x.data, true
	case <-time.After(20 * time.Second):
		panic("deadlock: a read did not finish within 20s after its lock hand-over")
	}
}

func (r *Runner) get(obj int, mode string, hand ...*handover) {
	id := r.nextOp
	r.nextOp++
	writesBefore, newsBefore, discardsBefore := r.devWrites(), r.st.Alloc.News.Load(), r.discards.total()
	// (with an upload interleaved at the lock hand-over the object may legitimately be evicted during the call)
	stored := r.hier() && r.storedUnderPrefix(obj)
	r.ioFired = false
	var locBefore int64
	var okBefore bool
	if r.ioKind != "" {
		if r.hier() {
			locBefore, okBefore = r.newestLocation(obj)
		} else {
			locBefore, okBefore = r.location(obj)
		}
	}
	var kind string
	var data []byte
	if len(hand) > 0 && hand[0] != nil {
		var used bool
		kind, data, used = r.getAcrossHandover(obj, mode, hand[0])
		if !used {
			defer r.startPut(hand[0].id, hand[0].obj, hand[0].ver, hand[0].chunking, hand[0].fault)
		}
	} else {
		openBefore := r.st.RBF.Opened.Load() - r.st.RBF.Closed.Load()
		kind, data = consumeMode(r.st.BA.Get(context.Background(), r.Digest(obj)), mode, int(r.Digest(obj).GetSizeBytes()))
		if openAfter := r.st.RBF.Opened.Load() - r.st.RBF.Closed.Load(); openAfter > openBefore {
			// every way of consuming (or discarding) the buffer returns only when the readers it opened are closed,
			// including those of a refresh copy running as its background task
			r.oracle("C04", "a read returned to its caller while a block reader it had opened was still open",
				fmt.Sprintf("Get of object %d consumed as %q: %d reader(s) open before the call, %d right after it", obj, mode, openBefore, openAfter))
		}
	}
	if strings.HasPrefix(kind, "partial ") {
		// a range of the object was read: judge the bytes here, then treat it like a read of the whole object
		off, _ := strconv.Atoi(strings.TrimPrefix(kind, "partial "))
		want := r.Content(obj)
		if r.st.Cfg.Kind == "ac" {
			want = nil
			for v := range r.acVersions[obj] {
				if off+len(data) <= len(v) && bytes.Equal([]byte(v)[off:off+len(data)], data) {
					want = []byte(v)
				}
			}
		}
		if want == nil || off+len(data) > len(want) || !bytes.Equal(want[off:off+len(data)], data) {
			r.oracle("C01", "a read of a range returned bytes that differ from that range of the uploaded object",
				fmt.Sprintf("Get of object %d: ReadAt at %d returned %x", obj, off, data))
			kind, data = "data", append([]byte{}, data...)
		} else {
			kind, data = "data", want
		}
	}
	if r.ioFired {
		// a device read or write failed during this read: no data may be served; a refresh in progress is abandoned
		r.ioFired = false
		if kind == "data" {
			r.oracle("C01", "a read during which the device failed returned data", fmt.Sprintf("Get of object %d", obj))
		}
		var reply string
		if r.hier() {
			ck, lks := r.hierKeys(obj)
			reply = r.m(fmt.Sprintf("hget.begin %d %d %s", id, ck, joinInts(lks)), "-")
		} else {
			reply = r.m(fmt.Sprintf("fget.begin %d %d", id, r.flatKey(obj)), "-")
		}
		if reply == "refresh" {
			// the failing access may have hit the refresh copy (the refresh is abandoned) or only the caller's own
			// read of the source (with a validation cache the two read the device independently: the copy completes and
			// is registered although the caller gets the error); the index tells which
			after, okAfter := locBefore, false
			if r.hier() {
				after, okAfter = r.newestLocation(obj)
			} else {
				after, okAfter = r.location(obj)
			}
			if okAfter && (!okBefore || after > locBefore) {
				r.m(fmt.Sprintf("copy %d", id), "ok")
				if r.hier() {
					ck, _ := r.hierKeys(obj)
					r.m(fmt.Sprintf("hget.end %d %d", id, ck), "-")
				} else {
					r.m(fmt.Sprintf("fget.end %d %d", id, r.flatKey(obj)), "-")
				}
			} else {
				r.m(fmt.Sprintf("abort %d", id), "ok")
			}
		}
		r.state()
		return
	}
	if stored && kind == "not-found" && len(hand) > 0 {
		// an upload ran inside the call and may have evicted the object: only judge if it is still there afterwards
		stored = r.storedUnderPrefix(obj)
	}
	if stored && kind == "not-found" {
		r.oracle("C10", "an object stored under a component-wise prefix of the reader's instance name was not found",
			fmt.Sprintf("Get of object %d (instance %q)", obj, r.objs[obj].Instance))
	}
	// evaluated with the block count *after* the call: blocks the call itself allocated count against the guarantee
	must := r.mustSurvive(obj)
	impl := kind
	if kind == "abandoned" {
		impl = "-"
	}
	if kind == "data" {
		impl = "data " + bytesLine(data)
		if len(data) == 0 {
			impl = "data "
		}
	}
	var reply string
	if r.hier() {
		ck, lks := r.hierKeys(obj)
		reply = r.m(fmt.Sprintf("hget.begin %d %d %s", id, ck, joinInts(lks)), "-")
		if reply == "refresh" {
			r.m(fmt.Sprintf("copy %d", id), "ok")
			reply = r.m(fmt.Sprintf("hget.end %d %d", id, ck), impl)
		} else {
			r.cmp(reply, impl, "hget")
		}
	} else {
		k := r.flatKey(obj)
		reply = r.m(fmt.Sprintf("fget.begin %d %d", id, k), "-")
		if reply == "refresh" {
			r.m(fmt.Sprintf("copy %d", id), "ok")
			reply = r.m(fmt.Sprintf("fget.end %d %d", id, k), impl)
		} else {
			r.cmp(reply, impl, "fget")
		}
	}
	switch kind {
	case "data":
		if r.hidden[obj] {
			r.oracle("C08", "an object stored in or below a block with detected corruption was served", fmt.Sprintf("Get of object %d", obj))
		}
		r.checkData(obj, data, "Get")
		if _, was := r.touched[obj]; was && r.touchedClean[obj] && r.devWrites() != writesBefore && r.touched[obj] == newsBefore {
			// touched, nothing allocated since, yet this read wrote to the medium
			r.oracle("C05", "repeating a read immediately wrote data again", fmt.Sprintf("Get of object %d", obj))
		}
		r.noteTouch(obj, newsBefore, discardsBefore)
	case "not-found":
		if must {
			r.oracle("C05", "an object that was just read or reported present was lost before old_blocks+1 further blocks were allocated",
				fmt.Sprintf("Get of object %d: NOT_FOUND, touched at %d blocks, now %d", obj, r.touched[obj], r.st.Alloc.News.Load()))
		}
		delete(r.touched, obj)
	case "err integrity":
		if !r.corrupted {
			r.oracle("C01", "a read reported a data integrity error on a medium that was not corrupted", fmt.Sprintf("Get of object %d", obj))
		} else {
			// the medium only returns a flipped byte during the corrupt operation itself: every other read gets the
			// stored bytes, so an integrity error here is a false detection (it quarantines healthy blocks)
			r.oracle("C08", "after a detected corruption a read of intact data failed with a data integrity error (newer blocks must be unaffected)", fmt.Sprintf("Get of object %d", obj))
		}
	}
	r.state()
}

// cmp records a disagreement between a model reply and the implementation's observable result.
func (r *Runner) cmp(model, impl, ctx string) {
	if r.model == nil || model == impl || impl == "-" {
		return
	}
	r.m("# "+ctx+" result", impl+" (model: "+model+")")
}

func (r *Runner) devWrites() int {
	if r.st.Dev == nil {
		return 0
	}
	return r.st.Dev.WriteCount()
}

func (r *Runner) findMissing(objs []int) {
	id := r.nextOp
	r.nextOp++
	sb := digest.NewSetBuilder(0)
	byDigest := map[digest.Digest]int{}
	for _, o := range objs {
		d := r.Digest(o)
		sb.Add(d)
		if _, ok := byDigest[d]; !ok {
			byDigest[d] = o
		}
	}
	set := sb.Build()
	newsAtStart, discardsAtStart := r.st.Alloc.News.Load(), r.discards.total()
	missingSet, err := r.st.BA.FindMissing(context.Background(), set)
	must := map[int]bool{}
	for _, o := range objs {
		must[o] = r.mustSurvive(o)
	}
	missing := setOf(missingSet)
	impl := ""
	if err != nil {
		impl = Code(err)
	} else {
		var ms []string
		for _, d := range set.Items() {
			if missing[d] {
				ms = append(ms, strconv.Itoa(byDigest[d]))
			}
		}
		impl = "missing " + strings.Join(ms, ",")
	}
	// model: first scan (pure), then the refresh scan in order
	if r.model != nil {
		type ent struct {
			obj int
			cls string
		}
		var ents []ent
		for _, d := range set.Items() {
			o := byDigest[d]
			var cls string
			if r.hier() {
				ck, lks := r.hierKeys(o)
				cls = r.m(fmt.Sprintf("hscan %d %s", ck, joinInts(lks)), "-")
			} else {
				cls = r.m(fmt.Sprintf("fscan %d", r.flatKey(o)), "-")
			}
			ents = append(ents, ent{o, cls})
		}
		var ms []string
		failed := ""
		for _, e := range ents {
			if e.cls == "missing" {
				ms = append(ms, strconv.Itoa(e.obj))
			}
		}
		for _, e := range ents {
			if e.cls != "old" || failed != "" {
				continue
			}
			var reply string
			if r.hier() {
				ck, lks := r.hierKeys(e.obj)
				reply = r.m(fmt.Sprintf("hfm.begin %d %d %s", id, ck, joinInts(lks)), "-")
				if reply == "refresh" {
					r.m(fmt.Sprintf("copy %d", id), "ok")
					reply = r.m(fmt.Sprintf("hfm.end %d %d", id, ck), "-")
				}
			} else {
				k := r.flatKey(e.obj)
				reply = r.m(fmt.Sprintf("ffm.begin %d %d", id, k), "-")
				if reply == "refresh" {
					r.m(fmt.Sprintf("copy %d", id), "ok")
					reply = r.m(fmt.Sprintf("ffm.end %d %d", id, k), "-")
				}
			}
			switch {
			case reply == "missing":
				ms = append(ms, strconv.Itoa(e.obj))
			case strings.HasPrefix(reply, "err"):
				failed = reply
			}
		}
		model := failed
		if failed == "" {
			sort.Slice(ms, func(i, j int) bool {
				a, _ := strconv.Atoi(ms[i])
				b, _ := strconv.Atoi(ms[j])
				return r.Digest(a).GetKey(digest.KeyWithInstance) < r.Digest(b).GetKey(digest.KeyWithInstance)
			})
			// order as in set.Items()
			pos := map[int]int{}
			for i, d := range set.Items() {
				pos[byDigest[d]] = i
			}
			sort.Slice(ms, func(i, j int) bool { a, _ := strconv.Atoi(ms[i]); b, _ := strconv.Atoi(ms[j]); return pos[a] < pos[b] })
			model = "missing " + strings.Join(ms, ",")
		}
		r.cmp(model, impl, "find-missing")
	}
	if err == nil {
		for _, d := range set.Items() {
			o := byDigest[d]
			if missing[d] {
				if must[o] {
					r.oracle("C05", "an object that was just read or reported present was lost before old_blocks+1 further blocks were allocated",
						fmt.Sprintf("FindMissing reports object %d missing, touched at %d blocks, now %d", o, r.touched[o], r.st.Alloc.News.Load()))
				}
				delete(r.touched, o)
			} else {
				if r.hidden[o] {
					r.oracle("C08", "an object stored in or below a block with detected corruption was reported present", fmt.Sprintf("FindMissing: object %d", o))
				}
				// reported present: every object with this digest that the caller named must be legitimately visible
				for _, o2 := range objs {
					if r.Digest(o2) == d && !r.visibleAllowed(o2) {
						r.invisible(o2, "reported present", fmt.Sprintf("FindMissing: object %d (instance %q)", o2, r.objs[o2].Instance))
					}
				}
				r.noteTouch(o, newsAtStart, discardsAtStart)
				if r.mustSurvive(o) {
					stored := false
					if r.hier() {
						stored = r.storedUnderPrefix(o)
					} else {
						_, stored = r.location(o)
					}
					if !stored {
						r.oracle("C05", "an object that was just read or reported present was lost before old_blocks+1 further blocks were allocated",
							fmt.Sprintf("FindMissing reports object %d present, but it does not resolve when the call returns (touched at %d blocks, now %d)", o, r.touched[o], r.st.Alloc.News.Load()))
					}
				}
			}
		}
	} else if Code(err) == "err integrity" && r.corrupted {
		r.oracle("C08", "after a detected corruption an existence check over intact data failed with a data integrity error (newer blocks must be unaffected)", fmt.Sprintf("FindMissing %v", objs))
	} else if Code(err) == "err integrity" && !r.corrupted {
		r.oracle("C01", "an existence check reported a data integrity error on a medium that was not corrupted", fmt.Sprintf("FindMissing %v", objs))
	}
	r.state()
}

// ---------------------------------------------------------------- composite reads (flat CAS)

func (r *Runner) startComp(id, parent, child int) {
	op := &pendingOp{id: id, kind: "comp", obj: parent, child: child, resume: make(chan struct{})}
	po := r.objs[parent]
	if len(po.Children) == 0 || child >= len(po.Children) || r.hier() || r.st.Cfg.Kind == "ac" {
		return
	}
	childObj := po.Children[child]
	childDigest := CASDigest(po.Instance, r.Content(childObj))
	op.newsAtStart, op.discardsAtStart = r.st.Alloc.News.Load(), r.discards.total()
	r.pending[id] = op
	go func() {
		defer func() {
			if p := recover(); p != nil {
				r.ev <- event{op: id, done: true, reply: fmt.Sprintf("panic: %v", p)}
			}
		}()
		kind, data := consume(r.st.BA.GetFromComposite(context.Background(), r.Digest(parent), childDigest, &gatedSlicer{r: r, op: op}))
		r.ev <- event{op: id, done: true, reply: kind, data: data}
	}()
	e := r.wait()
	pk := r.flatKey(parent)
	ck := r.key(childDigest.GetKey(r.keyFormat()))
	line := fmt.Sprintf("fcomp.begin %d %d %d", id, pk, ck)
	if e.done {
		delete(r.pending, id)
		impl := e.reply
		if e.reply == "data" {
			impl = "data " + bytesLine(e.data)
		}
		r.m(line, impl)
		r.checkComp(op, e)
		r.state()
		return
	}
	// parked in the slicer: the model must be in its slicing state too
	reply := r.m(line, "-")
	op.compRefreshed = strings.HasPrefix(reply, "slice refresh")
	if r.model != nil && !strings.HasPrefix(reply, "slice") {
		r.cmp(reply, "parked in slicer", "fcomp.begin")
	}
	r.state()
}

func (r *Runner) checkComp(op *pendingOp, e event) {
	parent, child := op.obj, op.child
	switch e.reply {
	case "data":
		// a composite read that completes is a successful read through the parent (C05): either the parent needed no
		// refresh or it was refreshed by this call, so the parent stays readable for the guaranteed window. (Nothing is
		// claimed for the child read on its own: a child uploaded separately before a still fresh parent is served from
		// wherever it is.)
		for o := range r.objs {
			if r.Digest(o) == r.Digest(parent) {
				r.noteTouch(o, op.newsAtStart, op.discardsAtStart)
			}
		}
		if op.compRefreshed {
			// the parent was refreshed by this call and its slices were registered inside the new copy, which is newer
			// than anything else: the children survive like the parent
			for _, c := range r.objs[parent].Children {
				cd := CASDigest(r.objs[parent].Instance, r.Content(c))
				for o := range r.objs {
					if r.Digest(o) == cd {
						r.noteTouch(o, op.newsAtStart, op.discardsAtStart)
					}
				}
			}
		}
		// slicing makes the children addressable on their own, under the parent's instance name
		if r.visibleAllowed(parent) {
			for _, c := range r.objs[parent].Children {
				id := r.contentID(c)
				if r.uploads[id] == nil {
					r.uploads[id] = map[string]bool{}
				}
				r.uploads[id][r.objs[parent].Instance] = true
				// a slice of an intact parent is a fresh, legitimate location for that content
				for o := range r.hidden {
					if r.contentID(o) == id {
						delete(r.hidden, o)
					}
				}
			}
		}
		want := r.Content(r.objs[parent].Children[child])
		if !bytes.Equal(e.data, want) {
			r.oracle("C01", "a composite read returned bytes other than the designated slice of the parent", fmt.Sprintf("parent %d child %d: got %x want %x", parent, child, e.data, want))
		}
		if !r.visibleAllowed(parent) {
			r.oracle("C01", "an object is visible although no successful upload under an admissible instance name exists", fmt.Sprintf("composite read of parent %d", parent))
		}
	case "not-found":
		if r.mustSurvive(parent) {
			r.oracle("C05", "an object that was just read or reported present was lost before old_blocks+1 further blocks were allocated",
				fmt.Sprintf("GetFromComposite of parent %d: NOT_FOUND, touched at %d blocks, now %d", parent, r.touched[parent], r.st.Alloc.News.Load()))
		}
		delete(r.touched, parent)
	case "err integrity":
		if !r.corrupted {
			r.oracle("C01", "a read reported a data integrity error on a medium that was not corrupted", fmt.Sprintf("GetFromComposite parent %d child %d", parent, child))
		}
	}
}

func (r *Runner) stepComp(op *pendingOp) {
	op.resume <- struct{}{}
	e := r.wait()
	delete(r.pending, op.id)
	pk := r.flatKey(op.obj)
	var parts []string
	for _, sl := range op.slices {
		parts = append(parts, fmt.Sprintf("%d %d %d", r.key(sl.Digest.GetKey(r.keyFormat())), sl.OffsetBytes, sl.SizeBytes))
	}
	impl := e.reply
	if e.reply == "data" {
		impl = "ok"
	}
	r.m(strings.TrimSpace(fmt.Sprintf("fcomp.end %d %d %s", op.id, pk, strings.Join(parts, " "))), impl)
	r.checkComp(op, e)
	r.state()
}

// ---------------------------------------------------------------- running a script

// wait receives the next event of the operation that is running; a store that never answers is a deadlock.
func (r *Runner) wait() event {
	select {
	case e := <-r.ev:
		if e.done && strings.HasPrefix(e.reply, "panic:") {
			// a storage operation panicked in its own goroutine: same as a panic in this one
			panic(e.reply)
		}
		return e
	case <-time.After(20 * time.Second):
		panic("deadlock: a storage operation neither finished nor reached a gate within 20s")
	}
}

// drainComposites completes composite reads parked in their slicer: they hold the refresh lock, which
// FindMissing and other composite reads need.
func (r *Runner) drainComposites() {
	var ids []int
	for id, op := range r.pending {
		if op.kind == "comp" {
			ids = append(ids, id)
		}
	}
	sort.Ints(ids)
	for _, id := range ids {
		r.stepOp(id)
	}
}

var longComponent = regexp.MustCompile(`Z([0-9]+)`)

// ExpandInstance expands the script notation for long instance names: "Z<n>" stands for n letters z (names that differ
// only far beyond the first few hundred bytes of the key string must still be different names).
func ExpandInstance(s string) string {
	return longComponent.ReplaceAllStringFunc(s, func(m string) string {
		n, _ := strconv.Atoi(m[1:])
		if n > 2000 {
			n = 2000
		}
		return strings.Repeat("z", n)
	})
}

// RunCase runs a script: "#cfg ..." line, "obj <size> <instance> [alias <j>|parent <c1,c2,..>]" declarations, then operations.
func RunCase(model *hx.Model, dr *discardReader, name string, script []string) (res *Runner) {
	cfg, ok := ParseConfig(script[0])
	r := &Runner{model: model, ev: make(chan event), pending: map[int]*pendingOp{}, name: name, script: script,
		uploads: map[string]map[string]bool{}, acVersions: map[int]map[string]bool{}, touched: map[int]int64{}, touchedClean: map[int]bool{}, hidden: map[int]bool{}, discards: dr, nextOp: 1000}
	if !ok {
		return r
	}
	r.st = NewStore(cfg)
	if r.st.Dev != nil {
		fault := func(kind string) error {
			if r.ioKind != kind {
				return nil
			}
			if r.ioCount > 0 {
				r.ioCount--
				return nil
			}
			r.ioKind = ""
			r.ioFired = true
			return status.Error(codes.Internal, "injected device "+kind+" failure")
		}
		r.st.Dev.FailWrite = func(int64, int) error { return fault("w") }
		r.st.Dev.FailRead = func(int64, int) error { return fault("r") }
	}
	r.discardsSeen = dr.total()
	r.m(cfg.InitLine(), "ok")
	defer func() {
		if p := recover(); p != nil {
			r.oracle("C01", "the store panicked", fmt.Sprintf("%v\n%s", p, debug.Stack()))
			if r.corrupted {
				r.oracle("C08", "the store stopped accepting uploads after a corruption was detected", fmt.Sprintf("a storage operation panicked: %v", p))
			}
			res = r
		}
	}()
	for _, line := range script[1:] {
		w := strings.Fields(line)
		if len(w) == 0 {
			continue
		}
		n := func(i int) int {
			if i >= len(w) {
				return 0
			}
			v, _ := strconv.Atoi(w[i])
			return v
		}
		okObj := func(i int) bool { return i >= 0 && i < len(r.objs) }
		switch w[0] {
		case "obj": // obj <size> <instance|-> [parent a,b,c]
			o := Object{Size: n(1), Alias: -1}
			if len(w) > 2 && w[2] != "-" {
				o.Instance = ExpandInstance(w[2])
			}
			if len(w) > 4 && w[3] == "alias" && okObj(n(4)) {
				o.Alias = n(4)
				o.Size = r.objs[n(4)].Size
				o.Children = r.objs[n(4)].Children
			}
			if len(w) > 4 && w[3] == "parent" {
				o.Size = 0
				for _, c := range strings.Split(w[4], ",") {
					ci, _ := strconv.Atoi(c)
					if okObj(ci) && len(r.objs[ci].Children) == 0 {
						o.Children = append(o.Children, ci)
						o.Size += r.objs[ci].Size
					}
				}
			}
			r.objs = append(r.objs, o)
		case "put": // put <op> <obj> <ver> <chunking> <fault>
			if len(w) >= 6 && okObj(n(2)) && r.pending[n(1)] == nil && n(1) < 1000 {
				r.startPut(n(1), n(2), n(3), w[4], w[5])
			}
		case "step":
			r.stepOp(n(1))
		case "run":
			for r.pending[n(1)] != nil {
				r.stepOp(n(1))
			}
		case "get":
			if okObj(n(1)) {
				mode := "s"
				if len(w) > 2 {
					mode = w[2]
				}
				if r.st.Cfg.Kind == "ac" {
					mode = "s" // action results are protos: ToProto/ToByteSlice
				}
				r.get(n(1), mode)
			}
		case "fm":
			var os []int
			for i := 1; i < len(w); i++ {
				if okObj(n(i)) {
					os = append(os, n(i))
				}
			}
			if len(os) > 0 {
				r.ioKind = "" // device faults are only injected into uploads and single reads
				r.drainComposites()
				r.findMissing(os)
			}
		case "getx": // getx <obj> <op> <putobj> <ver> <chunking> <fault>: a read with an upload started at its lock hand-over
			if len(w) == 7 && okObj(n(1)) && okObj(n(3)) && r.st.Cfg.Kind != "ac" {
				r.ioKind = ""
				r.drainComposites()
				r.get(n(1), "s", &handover{id: n(2), obj: n(3), ver: n(4), chunking: w[5], fault: w[6]})
			}
		case "ioerr": // ioerr <r|w> <k>: the k-th next data device read / write fails once
			compPending := false
			for _, p := range r.pending {
				compPending = compPending || p.kind == "comp"
			}
			if r.st.Dev != nil && len(w) == 3 && (w[1] == "r" || w[1] == "w") && !compPending {
				r.ioKind, r.ioCount = w[1], n(2)
			}
		case "corrupt":
			r.ioKind = ""
			if okObj(n(1)) {
				r.drainComposites()
				r.corruptMode = "s"
				if len(w) > 2 {
					r.corruptMode = w[2]
				}
				r.corrupt(n(1))
			}
		case "comp": // comp <op> <parent> <childIdx>
			r.ioKind = ""
			if okObj(n(2)) && r.pending[n(1)] == nil && n(1) < 1000 {
				r.drainComposites()
				r.startComp(n(1), n(2), n(3))
			}
		}
	}
	// drain
	var ids []int
	for id := range r.pending {
		ids = append(ids, id)
	}
	sort.Ints(ids)
	for _, id := range ids {
		for r.pending[id] != nil {
			r.stepOp(id)
		}
	}
	// C04 (no leak): with nothing in flight and a spare block configured, the store must be able to
	// absorb a full turn-over of block-sized uploads; a block that stays pinned forever shows up as UNAVAILABLE.
	if b := r.st.Cfg.BM; b.Alloc == "dev" && b.Spare >= 1 && len(r.pending) == 0 {
		size := b.BlockSize()
		if r.st.Cfg.Kind == "ac" {
			size -= 8
		}
		n := b.Old + b.Cur + b.New + b.Spare + 2
		for i := 0; i < n && size > 0; i++ {
			r.objs = append(r.objs, Object{Size: size, Alias: -1, Instance: "probe"})
			id := 900 + i
			r.startPut(id, len(r.objs)-1, i, "w", "none")
			for r.pending[id] != nil {
				r.stepOp(id)
			}
			last := ""
			for j := len(r.Impl) - 1; j >= 0; j-- {
				if strings.Contains(r.Lines[j], "put.end") || strings.Contains(r.Lines[j], "put.begin") {
					last = r.Impl[j]
					if last == "-" {
						last = "ok"
					}
					break
				}
			}
			if last == "err unavailable" {
				r.oracle("C04", "capacity is permanently lost: with nothing in flight and a spare block configured an upload fails with UNAVAILABLE",
					fmt.Sprintf("probe upload %d of %d bytes", i, size))
				if r.corrupted {
					r.oracle("C08", "the store stopped accepting uploads after a corruption was detected",
						fmt.Sprintf("with nothing in flight and a spare block configured, probe upload %d of %d bytes fails with UNAVAILABLE", i, size))
				}
				break
			}
		}
	}
	// C04 (reader balance) at quiescence
	if o, c := r.st.RBF.Opened.Load(), r.st.RBF.Closed.Load(); o != c {
		r.oracle("C04", "a block reader opened by a storage operation was not closed exactly once", fmt.Sprintf("opened %d closed %d", o, c))
	}
	return r
}

func setOf(s digest.Set) map[digest.Digest]bool {
	m := map[digest.Digest]bool{}
	for _, d := range s.Items() {
		m[d] = true
	}
	return m
}

// ---------------------------------------------------------------- corruption (flat CAS kinds on the block device)

// location returns the absolute block a key currently resolves to, straight from the real index.
func (r *Runner) location(obj int) (int64, bool) {
	k := local.NewKeyFromString(r.Digest(obj).GetKey(r.keyFormat()))
	r.st.Lock.RLock()
	defer r.st.Lock.RUnlock()
	l, err := r.st.KLM.Get(k)
	if err != nil {
		return 0, false
	}
	return int64(l.BlockIndex) + r.st.Alloc.Releases.Load(), true
}

// corrupt makes the medium return a flipped byte for the next data read and reads obj.
// newestLocation: hierarchical stores - the newest absolute block any index entry that a read of obj may consult
// (the keys of all component-wise prefixes of its instance name and the canonical key) currently resolves to.
func (r *Runner) newestLocation(obj int) (int64, bool) {
	d := r.Digest(obj)
	inst := r.objs[obj].Instance
	keys := []string{d.GetKey(digest.KeyWithoutInstance)}
	prefixes := []string{""}
	if inst != "" {
		cs := strings.Split(inst, "/")
		for i := range cs {
			prefixes = append(prefixes, strings.Join(cs[:i+1], "/"))
		}
	}
	for _, p := range prefixes {
		keys = append(keys, digest.MustNewDigest(p, d.GetDigestFunction().GetEnumValue(), d.GetHashString(), d.GetSizeBytes()).GetKey(digest.KeyWithInstance))
	}
	r.st.Lock.RLock()
	defer r.st.Lock.RUnlock()
	best, found := int64(-1), false
	for _, k := range keys {
		if l, err := r.st.KLM.Get(local.NewKeyFromString(k)); err == nil {
			if a := int64(l.BlockIndex) + r.st.Alloc.Releases.Load(); a > best {
				best, found = a, true
			}
		}
	}
	return best, found
}

// corruptHier: a read of obj from a hierarchical store during which the medium returns a flipped byte.
// corruptingRead is the read during which the medium returns a flipped byte, consumed in the way the script chose
// (every way of consuming the data must fail with INTERNAL, also one that asks for a part the flipped byte is not in).
func (r *Runner) corruptingRead(obj int) string {
	mode := r.corruptMode
	if !strings.Contains("srcwaqdDk", mode) || len(mode) != 1 {
		mode = "s"
	}
	kind, _ := consumeMode(r.st.BA.Get(context.Background(), r.Digest(obj)), mode, int(r.Digest(obj).GetSizeBytes()))
	if strings.HasPrefix(kind, "partial") {
		kind = "data"
	}
	return kind
}

// validationCached: with a validation cache, an object that was validated before is served without being checked
// again; a corrupting read of it detects nothing (that is what the cache trades), so the corrupt operation skips it.
func (r *Runner) validationCached(obj int) bool {
	return r.st.VC != nil && r.st.VC.RemoveExisting(r.Digest(obj).ToSingletonSet()).Empty()
}

func (r *Runner) corruptHier(obj int) {
	if !r.storedUnderPrefix(obj) || r.validationCached(obj) {
		return
	}
	before := map[int]int64{}
	for o := range r.objs {
		if a, ok := r.newestLocation(o); ok {
			before[o] = a
		}
	}
	id := r.nextOp
	r.nextOp++
	reads := r.st.Dev.Reads
	r.st.Dev.CorruptReads = 1
	kind := r.corruptingRead(obj)
	touched := r.st.Dev.CorruptReads == 0 && r.st.Dev.Reads > reads
	r.st.Dev.CorruptReads = 0
	ck, lks := r.hierKeys(obj)
	reply := r.m(fmt.Sprintf("hget.begin %d %d %s", id, ck, joinInts(lks)), "-")
	if !touched {
		// the read never touched the medium (the refresh reservation failed, a discarded read of a fresh object, ...):
		// an ordinary Get
		if kind != "abandoned" {
			r.cmp(reply, kind, "hget")
		} else if reply == "refresh" {
			r.m(fmt.Sprintf("abort %d", id), "ok")
		}
		r.state()
		return
	}
	if reply == "refresh" {
		r.m(fmt.Sprintf("corrupt-op %d", id), "ok")
		r.m(fmt.Sprintf("abort %d", id), "ok")
	} else {
		r.m("hcorrupt "+joinInts(lks), "ok")
	}
	if kind != "err integrity" && kind != "abandoned" {
		r.oracle("C08", "a read of corrupted data did not fail with INTERNAL", fmt.Sprintf("Get of object %d -> %s", obj, kind))
	}
	// the block that was actually read, from the device offset of the corrupted read
	bs := int64(r.st.Cfg.BM.BlockSize())
	abs, ok := r.st.Alloc.SlotAbs[r.st.Dev.FirstCorruptOff/bs*bs]
	if !ok {
		r.state()
		return
	}
	r.corrupted = true
	r.corruptions++
	for o, a := range before {
		if a <= abs {
			r.hidden[o] = true
		}
	}
	r.state()
}

func (r *Runner) corrupt(obj int) {
	if r.st.Dev != nil && r.hier() && r.objs[obj].Size > 0 {
		r.corruptHier(obj)
		return
	}
	if r.st.Dev == nil || r.hier() || r.objs[obj].Size == 0 {
		return
	}
	// an AC entry carries no checksum: what is detected is that it no longer parses, so the corrupting read returns
	// 0xff bytes throughout (a flipped byte may still parse)
	r.st.Dev.CorruptFill = r.st.Cfg.Kind == "ac"
	abs, ok := r.location(obj)
	if !ok || r.validationCached(obj) {
		return
	}
	before := map[int]int64{}
	for o := range r.objs {
		if a, ok := r.location(o); ok {
			before[o] = a
		}
	}
	id := r.nextOp
	r.nextOp++
	storedSize := int64(0)
	if l, err := r.st.KLM.Get(local.NewKeyFromString(r.Digest(obj).GetKey(r.keyFormat()))); err == nil {
		storedSize = l.SizeBytes
	}
	r.st.Dev.CorruptReads = 1
	kind := r.corruptingRead(obj)
	consumed := r.st.Dev.CorruptReads == 0
	r.st.Dev.CorruptReads = 0
	k := r.flatKey(obj)
	if r.st.Cfg.Kind == "ac" && consumed {
		// an AC entry is read and parsed when the buffer is created, i.e. the detection comes first and a refresh
		// then only allocates (releasing the quarantined blocks) and fails: corrupt, allocate, give up
		if cls := r.m(fmt.Sprintf("fscan %d", k), "-"); cls == "old" {
			r.m(fmt.Sprintf("corrupt %d", k), "ok")
			if reply := r.m(fmt.Sprintf("fput.begin %d %d", id, storedSize), "-"); reply == "ok" {
				r.m(fmt.Sprintf("fput.end %d %d 0", id, k), "-")
			} else {
				r.cmp(reply, kind, "fget")
			}
		} else {
			r.m(fmt.Sprintf("corrupt %d", k), "ok")
		}
		if kind != "err integrity" && kind != "err unavailable" && kind != "abandoned" {
			r.oracle("C08", "a read of corrupted data did not fail with INTERNAL", fmt.Sprintf("Get of object %d -> %s", obj, kind))
		}
		r.corrupted = true
		r.corruptions++
		for o, a := range before {
			if a <= abs {
				r.hidden[o] = true
			}
		}
		r.state()
		return
	}
	if kind == "not-found" || kind == "err unavailable" || (kind == "abandoned" && !consumed) {
		// the read never touched the medium (object gone, the refresh reservation failed, or a fresh object whose
		// buffer was discarded unread): an ordinary Get
		reply := r.m(fmt.Sprintf("fget.begin %d %d", id, k), "-")
		if kind != "abandoned" {
			r.cmp(reply, kind, "fget")
		} else if reply == "refresh" {
			r.m(fmt.Sprintf("abort %d", id), "ok")
		}
		r.state()
		return
	}
	reply := r.m(fmt.Sprintf("fget.begin %d %d", id, k), "-")
	if reply == "refresh" {
		r.m(fmt.Sprintf("corrupt-op %d", id), "ok")
		r.m(fmt.Sprintf("abort %d", id), "ok")
	} else {
		r.m(fmt.Sprintf("corrupt %d", k), "ok")
	}
	if kind != "err integrity" && kind != "abandoned" {
		r.oracle("C08", "a read of corrupted data did not fail with INTERNAL", fmt.Sprintf("Get of object %d -> %s", obj, kind))
	}
	r.corrupted = true
	r.corruptions++
	for o, a := range before {
		if a <= abs {
			r.hidden[o] = true
		}
	}
	r.state()
}
