package stx

import (
	"io"
	"sync/atomic"

	"github.com/buildbarn/bb-storage/pkg/blobstore"
	"github.com/buildbarn/bb-storage/pkg/blobstore/buffer"
	"github.com/buildbarn/bb-storage/pkg/digest"
)

// countingRBF wraps a ReadBufferFactory: counts readers opened and closed
// (C04: every reader is closed exactly once) and integrity verdicts.
type countingRBF struct {
	base     blobstore.ReadBufferFactory
	Opened   atomic.Int64
	Closed   atomic.Int64
	BadCalls atomic.Int64
}

type countingReaderAt struct {
	buffer.ReadAtCloser
	f      *countingRBF
	closed atomic.Int64
}

func (r *countingReaderAt) Close() error {
	if r.closed.Add(1) == 1 {
		r.f.Closed.Add(1)
	} else {
		r.f.Closed.Add(1000000) // double close: poison the balance so the oracle sees it
	}
	return r.ReadAtCloser.Close()
}

func (f *countingRBF) wrapCallback(cb buffer.DataIntegrityCallback) buffer.DataIntegrityCallback {
	return func(ok bool) {
		if !ok {
			f.BadCalls.Add(1)
		}
		cb(ok)
	}
}

func (f *countingRBF) NewBufferFromByteSlice(d digest.Digest, data []byte, cb buffer.DataIntegrityCallback) buffer.Buffer {
	return f.base.NewBufferFromByteSlice(d, data, f.wrapCallback(cb))
}

func (f *countingRBF) NewBufferFromReader(d digest.Digest, r io.ReadCloser, cb buffer.DataIntegrityCallback) buffer.Buffer {
	return f.base.NewBufferFromReader(d, r, f.wrapCallback(cb))
}

func (f *countingRBF) NewBufferFromReaderAt(d digest.Digest, r buffer.ReadAtCloser, sizeBytes int64, cb buffer.DataIntegrityCallback) buffer.Buffer {
	f.Opened.Add(1)
	return f.base.NewBufferFromReaderAt(d, &countingReaderAt{ReadAtCloser: r, f: f}, sizeBytes, f.wrapCallback(cb))
}
