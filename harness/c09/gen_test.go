package c09

import (
	"fmt"
	"strings"

	"verifharness/hx"
)

// target is the content the digest's hash is taken of: the first size bytes of the stream, padded.
func target(content []byte, size int) []byte {
	t := append([]byte{}, content...)
	for len(t) < size {
		t = append(t, byte('z'-len(t)%7))
	}
	return t[:size]
}

// digestHash picks the hash of the digest: that of the target (seeded with the stated size) or of something else.
func digestHash(fn fnInfo, content []byte, size int, ok bool) string {
	t := target(content, size)
	if !ok {
		if len(t) == 0 {
			t = []byte{'x'}
		} else {
			t[len(t)/2] ^= 1
		}
		return codeHash(fn, int64(size), t)
	}
	return codeHash(fn, int64(size), t)
}

func buildScript(fn fnInfo, items [][]byte, size int, hashOK bool, code int, ctor string, method string) []string {
	var content []byte
	for _, it := range items {
		content = append(content, it...)
	}
	h := digestHash(fn, content, size, hashOK)
	s := []string{fmt.Sprintf("#cfg %s %s", fn.name, h)}
	for _, it := range items {
		s = append(s, "item "+hexOr(it))
	}
	return append(s, fmt.Sprintf("run %d %s %d 0 ; %s ; %s", size, h, code, ctor, method))
}

func methodsFor(size int) []string {
	z := size
	ms := []string{"iw",
		"ra 0 0", fmt.Sprintf("ra 0 %d", z), fmt.Sprintf("ra 0 %d", z+2), "ra 1 1", fmt.Sprintf("ra %d 1", z), fmt.Sprintf("ra %d 1", z+1), "ra -1 1",
		fmt.Sprintf("bs %d", z), fmt.Sprintf("bs %d", z+5),
		"cr 0 1 50", "cr 0 2 50", "cr 0 64 50", "cr 1 2 50", fmt.Sprintf("cr %d 3 50", z), fmt.Sprintf("cr %d 1 2", z+1), "cr -1 1 2", "cr 0 2 1", "cr 0 0 3",
		"rd 1 1 1 1 1 1 1 1 1 1 1 1", "rd 2 100 100", "rd 0 3 100 100", "rd 100 100", "rd 1", "rd",
		fmt.Sprintf("cc %d iw", z+1), "cc 9 cr 1 2 50", "cc 9 ra 1 2", "cc 9 cs rd 3 3 3",
		"cs iw", "cs bs 9", "cs ra 1 2", "cs ra 0 0", "cs cr 0 2 50", "cs cr 1 1 50", fmt.Sprintf("cs cr %d 1 5", z+1), "cs cr -1 1 2", "cs cr 0 3 1",
		"cs rd 2 100 100", "cs rd 1 1", "cs cc 9 iw", "cs cs bs 9",
		// decorated buffers: WithTask (modelled) and a pass-through error handler (oracle only)
		"wt iw", "wt ra 1 2", "wt bs 9", "wt cr 0 2 50", "wt cr 1 1 50", "wt cr 0 64 1", "wt rd 2 100 100", "wt rd 1 1 1 1 1 1 1 1",
		"wt cc 9 cr 0 2 50", "wt cs cr 0 2 50", "cs wt rd 2 100 100", "wt wt cr 0 3 50", "wt cs wt bs 9",
		"eh iw", "eh ra 1 2", "eh bs 9", "eh cr 0 2 50", "eh cr 1 1 50", "eh rd 2 100 100", "eh rd 1 1 1 1 1 1 1 1",
		"eh cs cr 0 2 50", "eh cc 9 rd 3 3 3", "wt eh cr 0 2 50", "eh wt rd 2 100 100"}
	if z > 0 {
		ms = append(ms, fmt.Sprintf("bs %d", z-1), fmt.Sprintf("cc %d bs 9", z-1), fmt.Sprintf("cs bs %d", z-1))
	}
	return ms
}

// splits enumerates the ways to cut n bytes into exactly m (possibly empty) consecutive parts.
func splits(n, m int) [][]int {
	if m == 0 {
		if n == 0 {
			return [][]int{{}}
		}
		return nil
	}
	if m == 1 {
		return [][]int{{n}}
	}
	var res [][]int
	for first := 0; first <= n; first++ {
		for _, rest := range splits(n-first, m-1) {
			res = append(res, append([]int{first}, rest...))
		}
	}
	return res
}

// exhaustive enumerates every content of length <= maxLen cut into <= 3 items with every terminator
// (so: every error position), x constructors x digest sizes around the length x hash ok/bad x methods.
func exhaustive(e *env, maxLen int) int {
	count, sidx := 0, 0
	terms := []string{"eof", "e0", "e14"}
	for L := 0; L <= maxLen; L++ {
		for m := 0; m <= 3; m++ {
			for _, sp := range splits(L, m) {
				var items [][]byte
				pos := 0
				for _, l := range sp {
					it := make([]byte, l)
					for i := range it {
						it[i] = byte('a' + pos)
						pos++
					}
					items = append(items, it)
				}
				var ctors []string
				for _, t := range terms {
					ctors = append(ctors, "reader s "+t, "reader j "+t, "chunks "+t)
				}
				if m <= 1 {
					ctors = append(ctors, "slice")
				}
				sizes := []int{L, L + 1}
				if L > 0 {
					sizes = append(sizes, 0)
				}
				if L > 1 {
					sizes = append(sizes, L-1)
				}
				for _, ctor := range ctors {
					for _, size := range sizes {
						for _, hashOK := range []bool{true, false} {
							fn := digestFns[sidx%len(digestFns)]
							sidx++
							for mi, method := range methodsFor(size) {
								codes := []int{13}
								if (sidx+mi)%4 == 0 {
									codes = append(codes, 3)
								}
								for _, code := range codes {
									if e.stop() {
										return count
									}
									e.handle(fmt.Sprintf("exh/%d", count), buildScript(fn, items, size, hashOK, code, ctor, method), "exhaustive")
									count++
								}
							}
						}
					}
				}
			}
		}
	}
	return count
}

func genMethod(r *hx.Rand, size, depth int) string {
	near := func() int {
		switch r.Intn(8) {
		case 0:
			return 0
		case 1:
			return 1
		case 2:
			return size + 1
		case 3:
			if size > 0 {
				return size - 1
			}
			return 0
		case 4:
			return r.PickInt(8191, 8192, 8193, 32768, 65536, 65537)
		case 5:
			return r.Intn(size + 2)
		}
		return size
	}
	x := r.Intn(100)
	switch {
	case x < 10:
		return "iw"
	case x < 28:
		off := near()
		if r.Chance(1, 20) {
			off = -1 - r.Intn(3)
		}
		return fmt.Sprintf("ra %d %d", off, near())
	case x < 38:
		return fmt.Sprintf("bs %d", r.PickInt(size, size, size+1, near(), 1<<20))
	case x < 60:
		off := near()
		if r.Chance(1, 20) {
			off = -1 - r.Intn(3)
		}
		max := r.PickInt(1, 2, 3, 7, 64, near()+1, 65536, 70000)
		if size/max > 300 {
			// the model's ghost accumulators are quadratic in the number of reads; keep that number moderate
			max = size/300 + 1
		}
		return fmt.Sprintf("cr %d %d %d", off, max, r.PickInt(0, 1, 2, 5, 400, 400, 400))
	case x < 76:
		var sz []string
		for i, n := 0, r.Intn(8); i < n; i++ {
			sz = append(sz, fmt.Sprint(r.PickInt(0, 1, 2, 3, near(), 100, 100000)))
		}
		if r.Chance(2, 3) {
			sz = append(sz, "100000", "100000", "100000", "100000")
		}
		return strings.TrimSpace("rd " + strings.Join(sz, " "))
	case x < 82 && depth > 0:
		return fmt.Sprintf("cc %d %s", r.PickInt(size, size+1, 1<<20, near()), genMethod(r, size, depth-1))
	case x < 88 && depth > 0:
		return "cs " + genMethod(r, size, depth-1)
	case x < 96 && depth > 0:
		return "wt " + genMethod(r, size, depth-1)
	case depth > 0:
		return "eh " + genMethod(r, size, depth-1)
	}
	return "iw"
}

// genRandom makes a longer random case, biased towards valid content and boundary sizes.
func genRandom(r *hx.Rand) []string {
	n := r.Intn(40)
	switch r.Intn(50) {
	case 0:
		n = r.PickInt(8191, 8192, 8193, 16384, 32768, 32769, 65536, 65537, 70000)
	case 1, 2:
		n = r.Intn(600)
	}
	content := r.Bytes(n)
	var items [][]byte
	rest := content
	for parts := r.Intn(7); parts > 0 && len(rest) > 0; parts-- {
		if r.Chance(1, 5) {
			items = append(items, []byte{})
			continue
		}
		l := r.Intn(len(rest) + 1)
		items = append(items, rest[:l])
		rest = rest[l:]
	}
	if len(rest) > 0 {
		items = append(items, rest)
	}
	for r.Chance(1, 4) {
		items = append(items, []byte{})
	}
	size := n
	switch r.Intn(10) {
	case 0:
		size = n + 1 + r.Intn(3)
	case 1:
		if n > 0 {
			size = n - 1 - r.Intn(n)
		}
	case 2:
		size = r.PickInt(0, n/2, n*2)
	}
	term := "eof"
	switch x := r.Intn(20); {
	case x < 3:
		term = "e0"
	case x < 7:
		term = fmt.Sprintf("e%d", r.PickInt(1, 2, 5, 13, 14, 16))
	}
	ctor := "chunks " + term
	switch r.Intn(9) {
	case 0, 1, 2:
		ctor = "reader s " + term
	case 3, 4:
		ctor = "reader j " + term
	case 5:
		ctor = "slice"
	}
	fn := digestFns[r.Intn(len(digestFns))]
	return buildScript(fn, items, size, !r.Chance(1, 5), r.PickInt(13, 13, 3), ctor, genMethod(r, size, 2))
}

// canonical runs a few hand-picked cases first (they document the interesting corners and make the
// first replay of a kind of finding a readable one).
func canonical(e *env) {
	sha := digestFns[2]
	git := digestFns[7]
	b := func(x string) []byte { return []byte(x) }
	cases := [][]string{
		// a source failing with io.ErrUnexpectedEOF half way through a 4 byte blob
		buildScript(sha, [][]byte{b("ab")}, 4, true, 13, "reader s e0", "cs bs 100"),
		buildScript(sha, [][]byte{b("ab")}, 4, true, 13, "reader s e0", "cr 0 10 5"),
		buildScript(sha, [][]byte{b("ab")}, 4, true, 3, "reader s e0", "ra 0 4"),
		buildScript(sha, [][]byte{b("ab")}, 4, true, 13, "chunks e0", "cs bs 100"),
		// io.ErrUnexpectedEOF seen by the trailing-data probe after all bytes: accepted
		buildScript(sha, [][]byte{b("ab"), b("cd")}, 4, true, 13, "reader s e0", "iw"),
		// valid content, every cutting
		buildScript(git, [][]byte{{}, b("ab"), {}, b("cd"), {}}, 4, true, 13, "chunks eof", "cr 1 2 50"),
		buildScript(git, [][]byte{b("abcd")}, 4, true, 13, "reader j eof", "rd 1 1 1 1 1"),
		// hash mismatch in the last chunk: withheld
		buildScript(sha, [][]byte{b("ab"), b("cd")}, 4, false, 13, "chunks eof", "iw"),
		buildScript(sha, [][]byte{b("ab"), b("cd")}, 4, false, 3, "reader s eof", "rd 2 2 2"),
		// trailing data, premature end, source failure
		buildScript(sha, [][]byte{b("abcd"), b("e")}, 4, true, 13, "reader s eof", "bs 4"),
		buildScript(sha, [][]byte{b("abc")}, 4, true, 13, "chunks eof", "ra 1 2"),
		buildScript(sha, [][]byte{b("abcd")}, 4, true, 13, "chunks e14", "cs cr 0 2 50"),
		// GITSHA1: the hasher is seeded with the digest's size
		buildScript(git, [][]byte{b("abcd")}, 5, true, 13, "slice", "iw"),
		buildScript(git, nil, 0, true, 3, "reader s eof", "bs 0"),
		// decorated buffers must validate exactly like the bare ones
		buildScript(sha, [][]byte{b("ab"), b("cd")}, 4, false, 13, "reader s eof", "wt cr 0 2 50"),
		buildScript(sha, [][]byte{b("ab"), b("cd"), b("e")}, 4, true, 13, "chunks eof", "wt rd 100 100"),
		buildScript(sha, [][]byte{b("ab"), b("c")}, 4, true, 13, "chunks eof", "wt cs cr 0 2 50"),
		buildScript(sha, [][]byte{b("ab"), b("cd")}, 4, false, 13, "chunks eof", "eh cr 0 2 50"),
		buildScript(sha, [][]byte{b("ab"), b("cd")}, 4, false, 13, "reader j eof", "eh rd 100 100"),
	}
	for i, s := range cases {
		e.handle(fmt.Sprintf("canonical/%d", i), s, "canonical")
	}
	e.flush()
}
