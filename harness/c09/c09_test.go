package c09

import (
	"fmt"
	"strings"
	"testing"

	"verifharness/hx"
)

type env struct {
	run    *hx.Run
	model  *hx.Model
	strict bool
	seen   map[string]int // findings per What: only the first few of a kind are shrunk and reported
	queue  []queued
}

// queued is a case already run on the real code, waiting for the model's replies (sent in batches).
type queued struct {
	name   string
	script []string
	k      *kase
	o      *obs
}

func (e *env) stop() bool { return len(e.seen) >= 6 }

// canonModel adapts the model's reply to what the harness can observe.
func canonModel(k *kase, reply string) string {
	if k.code != 13 {
		if i := strings.LastIndex(reply, "verdicts="); i >= 0 {
			reply = reply[:i] + "verdicts=?"
		}
	}
	if methodArgs(k.method).leaf == "ra" {
		reply = strings.Replace(reply, "pieces=none", "pieces=-", 1)
	}
	return reply
}

// evalCase runs one script on the real code (and the model, unbatched) and returns the findings.
func (e *env) evalCase(name string, script []string) (what string, agree bool, found []hx.Finding) {
	k, err := parseCase(script)
	if err != nil {
		return "", true, nil
	}
	o := k.execImpl()
	what, detail := oracle(k, o)
	agree = true
	impl := []string{"ok", implLine(k, o)}
	var mo []string
	if e.model != nil && !methodArgs(k.method).handler {
		mo = e.model.Batch(k.modelLines(e.strict))
		mo[1] = canonModel(k, mo[1])
		if mo[0] != impl[0] || mo[1] != impl[1] {
			agree = false
		}
	}
	if what != "" {
		found = append(found, hx.Finding{Kind: "oracle", What: what, Detail: detail, Case: name, Script: script, Impl: impl, Model: mo})
	}
	if !agree && mo != nil {
		w := "model/implementation differ"
		if what != "" {
			w += " (" + what + ")"
		}
		found = append(found, hx.Finding{Kind: "disagreement", What: w,
			Detail: fmt.Sprintf("%q: impl=%q model=%q", k.modelLines(e.strict)[1], impl[1], mo[1]), Case: name, Script: script, Impl: impl, Model: mo})
	}
	return what, agree, found
}

func implLine(k *kase, o *obs) string {
	l := o.line()
	if methodArgs(k.method).leaf == "ra" {
		l = strings.Replace(l, "pieces=none", "pieces=-", 1)
	}
	return l
}

// handle runs a case on the real code, records it and queues it for the model.
func (e *env) handle(name string, script []string, bucket string) {
	k, err := parseCase(script)
	if err != nil {
		e.run.Report(hx.Finding{Kind: "disagreement", What: "harness generated an unparsable case", Detail: err.Error(), Case: name, Script: script})
		return
	}
	o := k.execImpl()
	content := k.content()
	nontrivial := len(k.items) >= 2 || k.term >= 0 || int64(len(content)) != k.size
	ma := methodArgs(k.method)
	e.run.Case(script, nontrivial, e.model != nil && !ma.handler)
	if ma.task {
		e.run.Count("decoration:WithTask")
	}
	if ma.handler {
		e.run.Count("decoration:WithErrorHandler(oracle only)")
	}
	e.run.Count("ctor:" + k.ctor)
	e.run.Count("method:" + methodArgs(k.method).leaf)
	e.run.Count("fn:" + k.fn.name)
	e.run.Count("gen:" + bucket)
	e.run.Count("res:" + strings.SplitN(o.res, ":", 2)[0])
	e.queue = append(e.queue, queued{name, script, k, o})
	if len(e.queue) >= 400 {
		e.flush()
	}
}

// flush sends the queued cases to the model in one batch, compares, applies the oracle.
func (e *env) flush() {
	q := e.queue
	e.queue = nil
	var replies []string
	pos := make([]int, len(q)) // index of the case's first reply, -1 if it is not sent to the model
	if e.model != nil {
		var lines []string
		for i, c := range q {
			pos[i] = -1
			if !methodArgs(c.k.method).handler {
				pos[i] = len(lines)
				lines = append(lines, c.k.modelLines(e.strict)...)
			}
		}
		replies = e.model.Batch(lines)
	}
	for i, c := range q {
		what, _ := oracle(c.k, c.o)
		agree := true
		if replies != nil && pos[i] >= 0 {
			e.run.Compared(1)
			agree = replies[pos[i]] == "ok" && canonModel(c.k, replies[pos[i]+1]) == implLine(c.k, c.o)
		}
		if what == "" && agree {
			continue
		}
		key := what
		if key == "" {
			key = "disagreement"
		}
		e.run.Count("finding:" + key)
		if e.seen[key]++; e.seen[key] > 2 {
			continue
		}
		// re-evaluate interactively, shrink, report
		w0, a0, found := e.evalCase(c.name, c.script)
		if w0 == "" && a0 {
			e.run.Report(hx.Finding{Kind: "disagreement", What: "case failed in a batch but not when re-run", Case: c.name, Script: c.script})
			continue
		}
		small := hx.Shrink(c.script, 1, func(s []string) bool {
			w, a, _ := e.evalCase(c.name, s)
			if w0 != "" {
				return w == w0
			}
			return !a
		})
		if len(small) < len(c.script) {
			if _, _, f2 := e.evalCase(c.name+"/shrunk", small); len(f2) > 0 {
				found = f2
			}
		}
		for _, f := range found {
			e.run.Report(f)
		}
	}
}

// detectStrict finds out whether the tree carries the repaired treatment of a
// source's io.ErrUnexpectedEOF (the model has both variants; the oracle does
// not depend on this).
func detectStrict() bool {
	h := trueHash("SHA256", []byte("abcd"))
	k, err := parseCase([]string{"#cfg SHA256 " + h, "item 6162", "run 4 " + h + " 13 0 ; reader s e0 ; cr 0 10 5"})
	if err != nil {
		panic(err)
	}
	o := k.execImpl()
	return !(o.res == "ok" || o.res == "eof")
}

func TestC09(t *testing.T) {
	run := hx.NewRun("C09")
	defer run.Finish(t)
	model, err := hx.StartModel()
	if err != nil {
		t.Fatalf("start model: %v", err)
	}
	defer model.Close()
	run.HasModel = model != nil
	e := &env{run: run, model: model, strict: detectStrict(), seen: map[string]int{}}
	run.Extra("validator_variant", map[bool]string{true: "repaired (strict)", false: "as pinned (legacy)"}[e.strict])
	run.SetRule("every case = digest (8 functions, size, hash) x constructor (byte slice, reader, chunk reader) x scripted source " +
		"(items, empty items, (n,EOF) form, error terminators incl. io.ErrUnexpectedEOF) x consumption method with arguments; " +
		"non-trivial when the source has >= 2 items, or fails, or content length != digest size; distinct by script hash")

	if name, script := run.ReplayScript(); script != nil {
		what, agree, found := e.evalCase(name, script)
		for _, f := range found {
			run.Report(f)
			t.Logf("%s: %s", f.Kind, f.Detail)
			t.Logf("impl:  %v", f.Impl)
			t.Logf("model: %v", f.Model)
		}
		if k, err := parseCase(script); err == nil {
			o := k.execImpl()
			t.Logf("impl:  %s", o.line())
			if model != nil {
				t.Logf("model: %v", model.Batch(k.modelLines(e.strict)))
			}
		}
		t.Logf("replay %s: oracle=%q agree=%v", name, what, agree)
		return
	}
	for name, script := range run.CorpusScripts() {
		e.handle("corpus/"+name, script, "corpus")
	}
	e.flush()
	canonical(e)
	maxLen := run.Scale(4, 6)
	n := exhaustive(e, maxLen)
	run.Extra("exhaustive_cases", n)
	run.Extra("exhaustive_max_content_length", maxLen)
	run.SetExhaustive(true)
	nr := run.Scale(4000, 60000)
	for i := 0; i < nr && !e.stop(); i++ {
		r := hx.NewRand(run.Seed, "C09", i)
		e.handle(fmt.Sprintf("seed%d/case%d", run.Seed, i), genRandom(r), "random")
	}
	e.flush()
}
