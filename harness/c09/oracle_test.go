package c09

import (
	"bytes"
	"crypto/md5"
	"crypto/sha1"
	"crypto/sha256"
	"crypto/sha512"
	"encoding/hex"
	"fmt"
	"strconv"
	"strings"

	"github.com/buildbarn/bb-storage/pkg/digest"
	"github.com/buildbarn/go-sha256tree"
	"github.com/zeebo/blake3"
)

// trueHash computes the digest function over data without going through pkg/digest.
func trueHash(fn string, data []byte) string {
	switch fn {
	case "MD5":
		h := md5.Sum(data)
		return hex.EncodeToString(h[:])
	case "SHA1":
		h := sha1.Sum(data)
		return hex.EncodeToString(h[:])
	case "SHA256":
		h := sha256.Sum256(data)
		return hex.EncodeToString(h[:])
	case "SHA384":
		h := sha512.Sum384(data)
		return hex.EncodeToString(h[:])
	case "SHA512":
		h := sha512.Sum512(data)
		return hex.EncodeToString(h[:])
	case "GITSHA1":
		h := sha1.Sum(append([]byte("blob "+strconv.Itoa(len(data))+"\x00"), data...))
		return hex.EncodeToString(h[:])
	case "BLAKE3":
		h := blake3.Sum256(data)
		return hex.EncodeToString(h[:])
	case "SHA256TREE":
		h := sha256tree.New(int64(len(data)))
		h.Write(data)
		return hex.EncodeToString(h.Sum(nil))
	}
	panic("unknown digest function " + fn)
}

// codeHash is what the code under test computes for data when validating against a digest of the given size.
func codeHash(fn fnInfo, size int64, data []byte) string {
	d := digest.MustNewFunction("verif", fn.enum)
	z := strings.Repeat("0", len(trueHash(fn.name, nil)))
	dd, err := d.NewDigest(z, size)
	if err != nil {
		panic(err)
	}
	h := dd.NewHasher(size)
	h.Write(data)
	return hex.EncodeToString(h.Sum(nil))
}

// args collects the arguments of the (possibly nested) method.
type margs struct {
	off      int64
	hasOff   bool
	minMax   int64 // smallest maximum size passed to ToByteSlice / CloneCopy, -1 if none
	leaf     string
	viaClone bool
	handler  bool // an error handler decoration is involved: not in the model's language
	task     bool
}

func methodArgs(m []string) margs {
	a := margs{minMax: -1}
	for len(m) > 0 {
		switch m[0] {
		case "cc":
			v, _ := strconv.ParseInt(m[1], 10, 64)
			if a.minMax < 0 || v < a.minMax {
				a.minMax = v
			}
			a.viaClone = true
			m = m[2:]
			continue
		case "cs":
			a.viaClone = true
			m = m[1:]
			continue
		case "wt":
			a.task = true
			m = m[1:]
			continue
		case "eh":
			a.handler = true
			m = m[1:]
			continue
		case "ra", "cr":
			a.off, _ = strconv.ParseInt(m[1], 10, 64)
			a.hasOff = true
		case "bs":
			v, _ := strconv.ParseInt(m[1], 10, 64)
			if a.minMax < 0 || v < a.minMax {
				a.minMax = v
			}
		}
		a.leaf = m[0]
		break
	}
	return a
}

const (
	whatTruncated = "a source failing with io.ErrUnexpectedEOF is reported to the consumer as successful completion of truncated content"
	whatComplete  = "consumer observed successful completion of content that does not match the digest"
	whatSrcFail   = "consumer observed successful completion although the source failed"
	whatPrefix    = "bytes handed out are not a prefix of the content at the requested offset"
	whatWithhold  = "all bytes of the stated size were handed out although the content was not validated"
	whatCode      = "data integrity error carries the wrong status code for its source"
	whatKind      = "error reported to the consumer does not describe what went wrong"
	whatVerbatim  = "source error was not passed through verbatim"
	whatCallback  = "data integrity callback verdicts are wrong"
	whatAnomaly   = "consumer-visible anomaly"
	whatRejected  = "matching content from a cleanly ending source was not delivered"
)

// oracle states C09 on the observed behaviour, using only the case and the real hash.
func oracle(k *kase, o *obs) (what, detail string) {
	content := k.content()
	contentOK := int64(len(content)) == k.size && trueHash(k.fn.name, content) == k.hashHex
	clean := k.term == -1
	soft := k.term == 0
	a := methodArgs(k.method)
	completed := o.res == "ok" || o.res == "eof"
	var data []byte
	for _, p := range o.pieces {
		data = append(data, p...)
	}
	if o.note != "" {
		return whatAnomaly + ": " + o.note, o.line()
	}
	if completed {
		if !contentOK {
			if soft {
				return whatTruncated, fmt.Sprintf("content %d bytes, digest size %d: %s", len(content), k.size, o.line())
			}
			return whatComplete, fmt.Sprintf("content %x (%d bytes), digest size %d hash %s: %s", content, len(content), k.size, k.hashHex, o.line())
		}
		if !clean && !soft {
			return whatSrcFail, o.line()
		}
	}
	// prefix
	off := int64(0)
	if a.hasOff {
		off = a.off
	}
	if len(data) > 0 {
		if off < 0 || off > int64(len(content)) || !bytes.HasPrefix(content[off:], data) {
			return whatPrefix, fmt.Sprintf("offset %d content %x: %s", off, content, o.line())
		}
	}
	// withholding: unless the whole content validated, strictly fewer than size bytes leave the validator
	if (!contentOK || (!clean && !soft)) && len(data) > 0 && off+int64(len(data)) >= k.size {
		return whatWithhold, fmt.Sprintf("offset %d size %d: %s", off, k.size, o.line())
	}
	// errors
	if strings.HasPrefix(o.res, "err:") {
		f := strings.SplitN(o.res, ":", 3)
		code, _ := strconv.Atoi(f[1])
		switch tag := f[2]; tag {
		case "toobig", "size", "hash":
			if contentOK {
				return whatKind, "mismatch reported for matching content: " + o.line()
			}
			if code != k.code {
				return whatCode, fmt.Sprintf("source code %d: %s", k.code, o.line())
			}
			if tag == "toobig" && int64(len(content)) <= k.size || tag == "size" && int64(len(content)) == k.size ||
				tag == "hash" && int64(len(content)) != k.size {
				return whatKind, fmt.Sprintf("content %d bytes, size %d: %s", len(content), k.size, o.line())
			}
		case "src":
			if k.term < 1 || code != k.term {
				return whatVerbatim, o.line()
			}
		case "ueof":
			if !soft {
				return whatVerbatim, o.line()
			}
		case "negoff":
			if !(a.hasOff && a.off < 0) || code != 3 {
				return whatKind, o.line()
			}
		case "offbeyond":
			if !(a.leaf == "cr" && a.off > k.size) || code != 3 {
				return whatKind, o.line()
			}
		case "toolarge":
			if !(a.minMax >= 0 && a.minMax < k.size) || code != 3 {
				return whatKind, o.line()
			}
		default:
			// only the repaired treatment of a source's io.ErrUnexpectedEOF may produce another error
			if !(soft && code == k.code) {
				return whatKind, o.line()
			}
		}
	}
	if k.term > 0 && strings.HasPrefix(o.res, "err:") && strings.HasSuffix(o.res, ":other") {
		return whatVerbatim, o.line()
	}
	// completeness: matching content, clean end, valid arguments, a method that reads to the end
	if contentOK && clean && !completed && (a.leaf == "iw" || a.leaf == "bs" || a.leaf == "ra") &&
		!(a.hasOff && a.off < 0) && !(a.minMax >= 0 && a.minMax < k.size) {
		return whatRejected, o.line()
	}
	// callback
	if o.backend {
		bad := len(o.verdicts) > 1
		for _, v := range o.verdicts {
			if v != contentOK {
				bad = true
			}
		}
		if completed && !soft && len(o.verdicts) != 1 {
			bad = true
		}
		if bad {
			return whatCallback, fmt.Sprintf("content matches digest: %v: %s", contentOK, o.line())
		}
	}
	if o.res == "panic" || o.res == "hung" || o.res == "bad-method" || o.res == "bad-digest" {
		return whatAnomaly + ": " + o.res, o.line()
	}
	return "", ""
}
