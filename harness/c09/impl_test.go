// Package c09 ties the Lean validator model (BB.Validate) to the real CAS
// buffers of pkg/blobstore/buffer and checks property C09 directly on the
// observed behaviour.
package c09

import (
	"bytes"
	"encoding/hex"
	"fmt"
	"io"
	"strconv"
	"strings"

	remoteexecution "github.com/bazelbuild/remote-apis/build/bazel/remote/execution/v2"
	"google.golang.org/grpc/codes"
	"google.golang.org/grpc/status"
)

type fnInfo struct {
	name string
	enum remoteexecution.DigestFunction_Value
}

var digestFns = []fnInfo{
	{"MD5", remoteexecution.DigestFunction_MD5}, {"SHA1", remoteexecution.DigestFunction_SHA1},
	{"SHA256", remoteexecution.DigestFunction_SHA256}, {"SHA256TREE", remoteexecution.DigestFunction_SHA256TREE},
	{"SHA384", remoteexecution.DigestFunction_SHA384}, {"SHA512", remoteexecution.DigestFunction_SHA512},
	{"BLAKE3", remoteexecution.DigestFunction_BLAKE3}, {"GITSHA1", remoteexecution.DigestFunction_GITSHA1},
}

func fnByName(n string) (fnInfo, bool) {
	for _, f := range digestFns {
		if f.name == n {
			return f, true
		}
	}
	return fnInfo{}, false
}

// ---- scripted sources

type scriptReader struct {
	items  [][]byte
	term   error
	joined bool
	reads  int
	closed int
}

func (s *scriptReader) Read(p []byte) (int, error) {
	s.reads++
	if len(s.items) == 0 {
		return 0, s.term
	}
	c := s.items[0]
	if len(c) <= len(p) {
		copy(p, c)
		s.items = s.items[1:]
		if len(s.items) == 0 && s.joined {
			return len(c), s.term
		}
		return len(c), nil
	}
	copy(p, c[:len(p)])
	s.items[0] = c[len(p):]
	return len(p), nil
}

func (s *scriptReader) Close() error { s.closed++; return nil }

type scriptChunkReader struct {
	chunks [][]byte
	term   error
	closed int
}

func (s *scriptChunkReader) Read() ([]byte, error) {
	if len(s.chunks) == 0 {
		return nil, s.term
	}
	c := s.chunks[0]
	s.chunks = s.chunks[1:]
	return c, nil
}

func (s *scriptChunkReader) Close() { s.closed++ }

// recWriter records every Write call; it deliberately has no ReadFrom method.
type recWriter struct{ writes [][]byte }

func (w *recWriter) Write(p []byte) (int, error) {
	w.writes = append(w.writes, append([]byte{}, p...))
	return len(p), nil
}

// ---- a parsed case

type kase struct {
	fn       fnInfo
	hashHex  string // the digest's hash
	size     int64
	code     int // 3 = UserProvided, 13 = BackendProvided
	ctor     string
	joined   bool
	term     int // -1 = EOF, 0 = io.ErrUnexpectedEOF, k = status code k
	items    [][]byte
	method   []string
	termErr  error // the very error value the source returns
}

func (k *kase) content() []byte { return bytes.Join(k.items, nil) }

func parseHexItem(s string) ([]byte, error) {
	if s == "-" {
		return []byte{}, nil
	}
	return hex.DecodeString(s)
}

// parseCase reads the script of a case:
//
//	#cfg <digest function> <digest hash>
//	item <hex>                  (one line per item / chunk the source returns; "-" is empty)
//	run <size> <digest hash> <code> <strict> ; <slice | reader j|s <term> | chunks <term>> ; <method>
//
// Methods may be prefixed (at any nesting level) by the decorations "wt" (Buffer.WithTask with a task
// that succeeds) and "eh" (WithErrorHandler with a handler that passes every error through). "eh" is
// not part of the model's language: such cases are checked by the oracle only.
func parseCase(script []string) (*kase, error) {
	k := &kase{}
	var run []string
	for _, l := range script {
		w := strings.Fields(l)
		if len(w) == 0 {
			continue
		}
		switch w[0] {
		case "#cfg":
			if len(w) != 3 {
				return nil, fmt.Errorf("bad #cfg")
			}
			f, ok := fnByName(w[1])
			if !ok {
				return nil, fmt.Errorf("unknown digest function")
			}
			k.fn, k.hashHex = f, w[2]
		case "item":
			if len(w) != 2 {
				return nil, fmt.Errorf("bad item")
			}
			b, err := parseHexItem(w[1])
			if err != nil {
				return nil, err
			}
			k.items = append(k.items, b)
		case "run":
			run = w
		}
	}
	if run == nil || k.fn.name == "" || len(run) < 9 || run[5] != ";" {
		return nil, fmt.Errorf("incomplete case")
	}
	sz, err1 := strconv.ParseInt(run[1], 10, 64)
	code, err2 := strconv.Atoi(run[3])
	if err1 != nil || err2 != nil || run[2] != k.hashHex || sz < 0 || (code != 3 && code != 13) {
		return nil, fmt.Errorf("bad run header")
	}
	k.size, k.code = sz, code
	rest := run[6:]
	sep := -1
	for i, w := range rest {
		if w == ";" {
			sep = i
		}
	}
	if sep < 1 || sep == len(rest)-1 {
		return nil, fmt.Errorf("bad run line")
	}
	cw, mw := rest[:sep], rest[sep+1:]
	k.method = mw
	k.ctor = cw[0]
	k.term = -1
	var err error
	switch {
	case k.ctor == "slice" && len(cw) == 1:
	case k.ctor == "reader" && len(cw) == 3 && (cw[1] == "j" || cw[1] == "s"):
		k.joined = cw[1] == "j"
		k.term, err = parseTerm(cw[2])
	case k.ctor == "chunks" && len(cw) == 2:
		k.term, err = parseTerm(cw[1])
	default:
		return nil, fmt.Errorf("bad ctor")
	}
	if err != nil || k.term < -1 || k.term > 16 {
		return nil, fmt.Errorf("bad terminator")
	}
	if !validMethod(mw) {
		return nil, fmt.Errorf("bad method")
	}
	switch {
	case k.term == -1:
		k.termErr = io.EOF
	case k.term == 0:
		k.termErr = io.ErrUnexpectedEOF
	default:
		k.termErr = status.Error(codes.Code(k.term), "scripted source failure")
	}
	return k, nil
}

func validMethod(m []string) bool {
	isNum := func(s string, neg bool) bool {
		v, err := strconv.ParseInt(s, 10, 64)
		return err == nil && (neg || v >= 0) && v < 1<<24 && v > -(1<<24)
	}
	if len(m) == 0 {
		return false
	}
	switch m[0] {
	case "iw":
		return len(m) == 1
	case "ra":
		return len(m) == 3 && isNum(m[1], true) && isNum(m[2], false)
	case "bs":
		return len(m) == 2 && isNum(m[1], false)
	case "cr":
		return len(m) == 4 && isNum(m[1], true) && isNum(m[2], false) && isNum(m[3], false)
	case "rd":
		for _, s := range m[1:] {
			if !isNum(s, false) {
				return false
			}
		}
		return true
	case "cc":
		return len(m) >= 3 && isNum(m[1], false) && validMethod(m[2:])
	case "cs", "wt", "eh":
		return validMethod(m[1:])
	}
	return false
}

// modelLines renders the case for the Lean driver.
func (k *kase) modelLines(strict bool) []string {
	content := k.content()
	hl := "hash - 00"
	if int64(len(content)) >= k.size {
		hl = fmt.Sprintf("hash %s %s", hexOr(content[:k.size]), codeHash(k.fn, k.size, content[:k.size]))
	}
	ctor := k.ctor
	switch k.ctor {
	case "slice":
		ctor += " " + hexOr(content)
	case "reader":
		j := "s"
		if k.joined {
			j = "j"
		}
		ctor += " " + j + " " + termWord(k.term)
	default:
		ctor += " " + termWord(k.term)
	}
	if k.ctor != "slice" {
		for _, it := range k.items {
			ctor += " " + hexOr(it)
		}
	}
	st := 0
	if strict {
		st = 1
	}
	return []string{hl, fmt.Sprintf("run %d %s %d %d ; %s ; %s", k.size, k.hashHex, k.code, st, ctor, strings.Join(k.method, " "))}
}

func hexOr(b []byte) string {
	if len(b) == 0 {
		return "-"
	}
	return hex.EncodeToString(b)
}

func termWord(t int) string {
	if t < 0 {
		return "eof"
	}
	return "e" + strconv.Itoa(t)
}

func parseTerm(s string) (int, error) {
	if s == "eof" {
		return -1, nil
	}
	if strings.HasPrefix(s, "e") {
		return strconv.Atoi(s[1:])
	}
	return 0, fmt.Errorf("bad terminator")
}

