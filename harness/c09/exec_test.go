package c09

import (
	"fmt"
	"io"
	"strconv"
	"strings"
	"sync"
	"time"

	"github.com/buildbarn/bb-storage/pkg/blobstore/buffer"
	"github.com/buildbarn/bb-storage/pkg/digest"
	"google.golang.org/grpc/status"
)

// obs is what the consumer of the real buffer observed.
type obs struct {
	res      string
	n        int
	pieces   [][]byte // nil = none
	verdicts []bool
	backend  bool   // verdicts are observable
	note     string // oracle-relevant anomalies seen while executing (panic, hang, non-sticky error, ...)
}

func (k *kase) canonErr(err error) string {
	switch {
	case err == nil:
		return "ok"
	case err == io.EOF:
		return "eof"
	case err == io.ErrUnexpectedEOF:
		return "err:2:ueof"
	case err == k.termErr:
		return fmt.Sprintf("err:%d:src", int(status.Code(err)))
	}
	msg, tag := err.Error(), "other"
	switch {
	case strings.Contains(msg, "Buffer is at least"):
		tag = "toobig"
	case strings.Contains(msg, "Buffer has checksum"):
		tag = "hash"
	case strings.Contains(msg, "while a maximum of"):
		tag = "toolarge"
	case strings.Contains(msg, "while a read at offset"):
		tag = "offbeyond"
	case strings.Contains(msg, "Negative read offset"):
		tag = "negoff"
	case strings.Contains(msg, "bytes in size, while") && strings.Contains(msg, "bytes were expected"):
		tag = "size"
	}
	return fmt.Sprintf("err:%d:%s", int(status.Code(err)), tag)
}

func sameErr(a, b error) bool {
	if a == b {
		return true
	}
	return a != nil && b != nil && a.Error() == b.Error() && status.Code(a) == status.Code(b)
}

func cp(b []byte) []byte { return append([]byte{}, b...) }

// consume runs the method words on the buffer.
func (k *kase) consume(b buffer.Buffer, m []string, o *obs) {
	num := func(i int) int { v, _ := strconv.Atoi(m[i]); return v }
	switch m[0] {
	case "iw":
		w := &recWriter{}
		err := b.IntoWriter(w)
		o.pieces, o.res = w.writes, k.canonErr(err)
	case "ra":
		p := make([]byte, num(2))
		n, err := b.ReadAt(p, int64(num(1)))
		if n < 0 || n > len(p) {
			o.note, n = "ReadAt returned a count outside its buffer", 0
		}
		// io.ReaderAt: only p[:n] is handed to the caller
		o.pieces, o.n, o.res = [][]byte{cp(p[:n])}, n, k.canonErr(err)
	case "bs":
		data, err := b.ToByteSlice(num(1))
		o.res = k.canonErr(err)
		if err == nil {
			o.pieces = [][]byte{cp(data)}
		} else if len(data) != 0 {
			o.note = "ToByteSlice returned data together with an error"
			o.pieces = [][]byte{cp(data)}
		}
	case "cr":
		r := b.ToChunkReader(int64(num(1)), num(2))
		o.res = "open"
		for i := 0; i < num(3); i++ {
			chunk, err := r.Read()
			if err != nil {
				o.res = k.canonErr(err)
				if len(chunk) != 0 {
					o.note = "chunk reader returned data together with an error"
					o.pieces = append(o.pieces, cp(chunk))
				}
				if _, err2 := r.Read(); !sameErr(err, err2) {
					o.note = "error of the chunk reader is not sticky"
				}
				break
			}
			o.pieces = append(o.pieces, cp(chunk))
		}
		r.Close()
	case "rd":
		r := b.ToReader()
		o.res = "open"
		for _, sz := range m[1:] {
			n, _ := strconv.Atoi(sz)
			p := make([]byte, n)
			got, err := r.Read(p)
			o.pieces = append(o.pieces, cp(p[:got]))
			if err != nil {
				o.res = k.canonErr(err)
				if got2, err2 := r.Read(make([]byte, 4)); !sameErr(err, err2) || got2 != 0 {
					o.note = "error of the reader is not sticky"
				}
				break
			}
		}
		r.Close()
	case "cc":
		b1, b2 := b.CloneCopy(num(1))
		b2.Discard()
		k.consume(b1, m[2:], o)
	case "cs":
		b1, b2 := b.CloneStream()
		var wg sync.WaitGroup
		wg.Add(1)
		go func() {
			defer wg.Done()
			defer func() { recover() }()
			b2.Discard()
		}()
		k.consume(b1, m[1:], o)
		wg.Wait()
	case "wt":
		k.consume(b.WithTask(func() error { return nil }), m[1:], o)
	case "eh":
		k.consume(buffer.WithErrorHandler(b, &passThrough{}), m[1:], o)
	default:
		o.res = "bad-method"
	}
}

// passThrough is an ErrorHandler that changes nothing: every error is handed back as it is.
type passThrough struct{ errors, done int }

func (h *passThrough) OnError(err error) (buffer.Buffer, error) { h.errors++; return nil, err }
func (h *passThrough) Done()                                    { h.done++ }

// execImpl creates the buffer with the real constructor and consumes it.
func (k *kase) execImpl() *obs {
	o := &obs{backend: k.code == 13}
	d, err := digest.MustNewFunction("verif", k.fn.enum).NewDigest(k.hashHex, k.size)
	if err != nil {
		o.res = "bad-digest"
		return o
	}
	var mu sync.Mutex
	src := buffer.UserProvided
	if o.backend {
		src = buffer.BackendProvided(func(valid bool) {
			mu.Lock()
			o.verdicts = append(o.verdicts, valid)
			mu.Unlock()
		})
	}
	done := make(chan struct{})
	go func() {
		defer close(done)
		defer func() {
			if r := recover(); r != nil {
				o.res, o.note = "panic", fmt.Sprintf("panic: %v", r)
			}
		}()
		var b buffer.Buffer
		items := make([][]byte, len(k.items))
		for i, it := range k.items {
			items[i] = cp(it)
		}
		switch k.ctor {
		case "slice":
			b = buffer.NewCASBufferFromByteSlice(d, k.content(), src)
		case "reader":
			b = buffer.NewCASBufferFromReader(d, &scriptReader{items: items, term: k.termErr, joined: k.joined}, src)
		default:
			b = buffer.NewCASBufferFromChunkReader(d, &scriptChunkReader{chunks: items, term: k.termErr}, src)
		}
		k.consume(b, k.method, o)
	}()
	select {
	case <-done:
	case <-time.After(20 * time.Second):
		return &obs{res: "hung", note: "consumer did not return within 20 s", backend: o.backend}
	}
	return o
}

func (o *obs) line() string {
	ps := "none"
	if o.pieces != nil {
		var hs []string
		for _, p := range o.pieces {
			h := "-"
			if len(p) > 0 {
				h = fmt.Sprintf("%x", p)
			}
			hs = append(hs, h)
		}
		ps = strings.Join(hs, ",")
	}
	vs := "?"
	if o.backend {
		vs = ""
		for _, v := range o.verdicts {
			if v {
				vs += "t"
			} else {
				vs += "f"
			}
		}
	}
	return fmt.Sprintf("res=%s n=%d pieces=%s verdicts=%s", o.res, o.n, ps, vs)
}
