package c12

import (
	"testing"
	_ "unsafe"

	_ "github.com/buildbarn/bb-storage/pkg/blobstore/sharding"
)

//go:linkname realScore github.com/buildbarn/bb-storage/pkg/blobstore/sharding.score
func realScore(x uint64, weight uint32) uint64

//go:linkname realSplitmix64 github.com/buildbarn/bb-storage/pkg/blobstore/sharding.splitmix64
func realSplitmix64(x uint64) uint64

func TestLink(t *testing.T) {
	t.Logf("%d %d", realScore(0, 1), realSplitmix64(1))
}
