// Package c12 ties the Lean sharding model (BB.Sharding, generated
// BB.Gen.Rendezvous) to the real rendezvous shard selector and the real
// shardingBlobAccess, and checks the statements of property C12 directly on
// the observed behaviour.
package c12

import (
	"context"
	"crypto/sha256"
	"encoding/binary"
	"encoding/hex"
	"fmt"
	"reflect"
	"sort"
	"strconv"
	"strings"
	"sync"
	"testing"
	"time"
	_ "unsafe"

	remoteexecution "github.com/bazelbuild/remote-apis/build/bazel/remote/execution/v2"
	"github.com/buildbarn/bb-storage/pkg/blobstore"
	"github.com/buildbarn/bb-storage/pkg/blobstore/buffer"
	blobstore_configuration "github.com/buildbarn/bb-storage/pkg/blobstore/configuration"
	"github.com/buildbarn/bb-storage/pkg/blobstore/sharding"
	"github.com/buildbarn/bb-storage/pkg/blobstore/slicing"
	"github.com/buildbarn/bb-storage/pkg/digest"
	pb "github.com/buildbarn/bb-storage/pkg/proto/configuration/blobstore"
	status_pb "google.golang.org/genproto/googleapis/rpc/status"
	"google.golang.org/grpc/codes"
	"google.golang.org/grpc/status"

	"verifharness/hx"
)

// The two unexported leaf functions of the selector, reached through the
// linker so that the translator's output can be compared value by value with
// the real code (Log2Fixed is exported).
//
//go:linkname realScore github.com/buildbarn/bb-storage/pkg/blobstore/sharding.score
func realScore(x uint64, weight uint32) uint64

//go:linkname realSplitmix64 github.com/buildbarn/bb-storage/pkg/blobstore/sharding.splitmix64
func realSplitmix64(x uint64) uint64

// ---------------------------------------------------------------- input construction

// hashServer: the way rendezvous_shard_selector.go derives a shard's hash from its key.
func hashServer(key string) uint64 {
	h := sha256.Sum256([]byte(key))
	return binary.BigEndian.Uint64(h[:8])
}

func modInverse(a uint64) uint64 { // a odd
	x := a
	for i := 0; i < 6; i++ {
		x *= 2 - a*x
	}
	return x
}

// invSplitmix64 inverts the finaliser used by GetShard, so that a score input
// can be chosen exactly (generator only; never used by the oracle).
func invSplitmix64(y uint64) uint64 {
	y ^= y>>31 ^ y>>62
	y *= modInverse(0x94d049bb133111eb)
	y ^= y>>27 ^ y>>54
	y *= modInverse(0xbf58476d1ce4e5b9)
	y ^= y>>30 ^ y>>60
	return y
}

// boundaryXs: score inputs at the edges of the fixed point logarithm.
func boundaryXs() []uint64 {
	xs := []uint64{0, 1, 2, 3, ^uint64(0), ^uint64(0) - 1}
	for k := uint(1); k < 64; k++ {
		p := uint64(1) << k
		xs = append(xs, p, p-1, p+1)
	}
	// every table index at several magnitudes, with zero, one and maximal interpolation
	for _, m := range []uint{6, 7, 13, 22, 31, 32, 48, 62, 63} {
		for i := uint64(0); i < 64; i++ {
			base := uint64(1)<<m | i<<(m-6)
			low := uint64(1)<<(m-6) - 1
			xs = append(xs, base, base|low)
			if low > 1 {
				xs = append(xs, base|1, base|(low>>1))
			}
		}
	}
	return xs
}

var boundary = boundaryXs()

var weightsOfInterest = []uint32{1, 2, 1<<32 - 1}

func pickWeight(r *hx.Rand) uint32 {
	switch r.Intn(10) {
	case 0, 1, 2:
		return 1
	case 3, 4:
		return 2
	case 5, 6:
		return 1<<32 - 1
	case 7:
		return uint32(r.Range(3, 100))
	default:
		w := uint32(r.Uint64())
		if w == 0 {
			w = 1
		}
		return w
	}
}

// ---------------------------------------------------------------- shards and digests

type shard struct {
	key string
	kh  uint64
	w   uint32
}

func (s shard) tok() string { return fmt.Sprintf("%s:%d:%d", s.key, s.kh, s.w) }

func selLine(ss []shard) string {
	parts := []string{"sel"}
	for _, s := range ss {
		parts = append(parts, s.tok())
	}
	return strings.Join(parts, " ")
}

func parseShard(tok string) (shard, bool) {
	p := strings.Split(tok, ":")
	if len(p) != 3 {
		return shard{}, false
	}
	kh, err1 := strconv.ParseUint(p[1], 10, 64)
	w, err2 := strconv.ParseUint(p[2], 10, 32)
	if err1 != nil || err2 != nil {
		return shard{}, false
	}
	return shard{key: p[0], kh: kh, w: uint32(w)}, true
}

func parseShards(toks []string) ([]shard, bool) {
	var ss []shard
	for _, t := range toks {
		s, ok := parseShard(t)
		// the key hash in a script must be the one the Go code derives from the key
		if !ok || s.kh != hashServer(s.key) {
			return nil, false
		}
		ss = append(ss, s)
	}
	return ss, true
}

func guard(f func()) (panicked string) {
	defer func() {
		if r := recover(); r != nil {
			panicked = fmt.Sprint(r)
		}
	}()
	f()
	return ""
}

// newSelector calls the real constructor.
func newSelector(ss []shard) (sel sharding.ShardSelector, reply string) {
	in := make([]sharding.Shard, 0, len(ss))
	for _, s := range ss {
		in = append(in, sharding.Shard{Key: s.key, Weight: s.w})
	}
	var err error
	if p := guard(func() { sel, err = sharding.NewRendezvousShardSelector(in) }); p != "" {
		return nil, "panic"
	}
	if err != nil {
		switch {
		case strings.Contains(err.Error(), "collision"):
			return nil, "error:collision"
		case strings.Contains(err.Error(), "must have shards"):
			return nil, "error:empty"
		}
		return nil, "error:other"
	}
	return sel, "ok"
}

// dumpSelector reads the unexported shard list of the real selector: "<hash>:<weight>:<index> ...".
func dumpSelector(sel sharding.ShardSelector) (out string, ok bool) {
	defer func() {
		if recover() != nil {
			out, ok = "", false
		}
	}()
	v := reflect.ValueOf(sel)
	if v.Kind() != reflect.Ptr || v.Elem().Kind() != reflect.Struct || v.Elem().NumField() != 1 {
		return "", false
	}
	l := v.Elem().FieldByName("shards")
	if !l.IsValid() || l.Kind() != reflect.Slice {
		return "", false
	}
	var parts []string
	for i := 0; i < l.Len(); i++ {
		e := l.Index(i)
		h, wt, ix := e.FieldByName("hash"), e.FieldByName("weight"), e.FieldByName("index")
		if !h.IsValid() || !wt.IsValid() || !ix.IsValid() || e.NumField() != 3 {
			return "", false
		}
		parts = append(parts, fmt.Sprintf("%d:%d:%d", h.Uint(), wt.Uint(), ix.Int()))
	}
	return strings.Join(parts, " "), true
}

func getShard(sel sharding.ShardSelector, n int, h uint64) (idx int, panicked string) {
	idx = -1
	panicked = guard(func() { idx = sel.GetShard(h) })
	if panicked == "" && (idx < 0 || idx >= n) {
		panicked = fmt.Sprintf("index %d out of range", idx)
	}
	return
}

// Every digest function pkg/digest supports: REv2 enum value -> hash size in bytes.
var hashSizeOfFunction = map[int]int{
	int(remoteexecution.DigestFunction_SHA256): 32, int(remoteexecution.DigestFunction_SHA1): 20,
	int(remoteexecution.DigestFunction_MD5): 16, int(remoteexecution.DigestFunction_SHA384): 48,
	int(remoteexecution.DigestFunction_SHA512): 64, int(remoteexecution.DigestFunction_SHA256TREE): 32,
	int(remoteexecution.DigestFunction_BLAKE3): 32, int(remoteexecution.DigestFunction_GITSHA1): 20,
}

var allFunctions = []int{
	int(remoteexecution.DigestFunction_SHA256), int(remoteexecution.DigestFunction_SHA1), int(remoteexecution.DigestFunction_MD5),
	int(remoteexecution.DigestFunction_SHA384), int(remoteexecution.DigestFunction_SHA512), int(remoteexecution.DigestFunction_SHA256TREE),
	int(remoteexecution.DigestFunction_BLAKE3), int(remoteexecution.DigestFunction_GITSHA1),
}

// pickFunction draws a digest function (all eight, the two-digit enum value GITSHA1 a bit more often).
func pickFunction(r *hx.Rand) (fn, hashBytes int) {
	fn = allFunctions[r.Intn(len(allFunctions))]
	if r.Chance(1, 8) {
		fn = int(remoteexecution.DigestFunction_GITSHA1)
	}
	return fn, hashSizeOfFunction[fn]
}

// functionsOfSize: the digest functions with hashes of n bytes.
func functionsOfSize(n int) []int {
	var out []int
	for _, f := range allFunctions {
		if hashSizeOfFunction[f] == n {
			out = append(out, f)
		}
	}
	return out
}

func mkTok(inst string, fn int, hb []byte, size int) string {
	return fmt.Sprintf("%s:%d:%s:%d", inst, fn, hex.EncodeToString(hb), size)
}

var instanceNames = []string{"", "a", "b/c", "x/y/z"}

func parseDigest(tok string) (d digest.Digest, first8 uint64, ok bool) {
	p := strings.Split(tok, ":")
	if len(p) != 4 {
		return digest.BadDigest, 0, false
	}
	fn, err0 := strconv.Atoi(p[1])
	size, err := strconv.ParseInt(p[3], 10, 64)
	raw, err2 := hex.DecodeString(p[2])
	if err0 != nil || err != nil || err2 != nil || size < 0 || p[2] != strings.ToLower(p[2]) || hashSizeOfFunction[fn] != len(raw) || len(raw) < 8 {
		return digest.BadDigest, 0, false
	}
	okInst := false
	for _, in := range instanceNames {
		okInst = okInst || in == p[0]
	}
	if !okInst {
		return digest.BadDigest, 0, false
	}
	if guard(func() { d = digest.MustNewDigest(p[0], remoteexecution.DigestFunction_Value(fn), p[2], size) }) != "" {
		return digest.BadDigest, 0, false
	}
	return d, binary.BigEndian.Uint64(raw[:8]), true
}

func digestTok(d digest.Digest) string {
	return fmt.Sprintf("%s:%d:%s:%d", d.GetInstanceName().String(), int(d.GetDigestFunction().GetEnumValue()), d.GetHashString(), d.GetSizeBytes())
}

func setToks(s digest.Set) []string {
	var out []string
	for _, d := range s.Items() {
		out = append(out, digestTok(d))
	}
	sort.Strings(out)
	return out
}

func dedupSorted(in []string) []string {
	sort.Strings(in)
	var out []string
	for i, s := range in {
		if i == 0 || s != in[i-1] {
			out = append(out, s)
		}
	}
	return out
}

// ---------------------------------------------------------------- recording, fault injecting backends

type fmAns struct {
	kind string // missing | raw | err
	set  []digest.Digest
	code codes.Code
}

type recCall struct {
	kind string // get | put | fm
	idx  int
	toks []string
}

type access struct {
	mu        sync.Mutex
	calls     []recCall
	returned  map[int][]string // what backend i answered to FindMissing during the current operation
	fm        map[int]fmAns
	gp        map[int]codes.Code
	waitAbove int // ordered mode: failing backends with a larger index wait for cancellation first; -1: nobody waits
}

type recBackend struct {
	idx int
	st  *access
}

func injected(code codes.Code, idx int) error {
	return status.Errorf(code, "injected-%d", idx)
}

func (b *recBackend) Get(ctx context.Context, d digest.Digest) buffer.Buffer {
	b.st.mu.Lock()
	b.st.calls = append(b.st.calls, recCall{"get", b.idx, []string{digestTok(d)}})
	code, fail := b.st.gp[b.idx]
	b.st.mu.Unlock()
	if fail {
		return buffer.NewBufferFromError(injected(code, b.idx))
	}
	return buffer.NewValidatedBufferFromByteSlice([]byte("payload"))
}

func (b *recBackend) GetFromComposite(ctx context.Context, parent, child digest.Digest, slicer slicing.BlobSlicer) buffer.Buffer {
	b.st.mu.Lock()
	b.st.calls = append(b.st.calls, recCall{"getc", b.idx, []string{digestTok(parent), digestTok(child)}})
	code, fail := b.st.gp[b.idx]
	b.st.mu.Unlock()
	if fail {
		return buffer.NewBufferFromError(injected(code, b.idx))
	}
	return buffer.NewValidatedBufferFromByteSlice([]byte("child"))
}

func (b *recBackend) Put(ctx context.Context, d digest.Digest, buf buffer.Buffer) error {
	buf.Discard()
	b.st.mu.Lock()
	b.st.calls = append(b.st.calls, recCall{"put", b.idx, []string{digestTok(d)}})
	code, fail := b.st.gp[b.idx]
	b.st.mu.Unlock()
	if fail {
		return injected(code, b.idx)
	}
	return nil
}

func (b *recBackend) FindMissing(ctx context.Context, ds digest.Set) (digest.Set, error) {
	b.st.mu.Lock()
	b.st.calls = append(b.st.calls, recCall{"fm", b.idx, setToks(ds)})
	ans, scripted := b.st.fm[b.idx]
	wait := b.st.waitAbove >= 0 && b.idx > b.st.waitAbove
	b.st.mu.Unlock()
	if !scripted {
		return digest.EmptySet, nil
	}
	switch ans.kind {
	case "err":
		if wait {
			select {
			case <-ctx.Done():
			case <-time.After(300 * time.Millisecond):
			}
		}
		return digest.EmptySet, injected(ans.code, b.idx)
	case "raw":
		sb := digest.NewSetBuilder(len(ans.set))
		for _, d := range ans.set {
			sb.Add(d)
		}
		out := sb.Build()
		b.st.mu.Lock()
		b.st.returned[b.idx] = setToks(out)
		b.st.mu.Unlock()
		return out, nil
	default: // missing: asked ∩ set
		in := map[digest.Digest]bool{}
		for _, d := range ans.set {
			in[d] = true
		}
		sb := digest.NewSetBuilder(ds.Length())
		for _, d := range ds.Items() {
			if in[d] {
				sb.Add(d)
			}
		}
		out := sb.Build()
		b.st.mu.Lock()
		b.st.returned[b.idx] = setToks(out)
		b.st.mu.Unlock()
		return out, nil
	}
}

func (b *recBackend) GetCapabilities(ctx context.Context, in digest.InstanceName) (*remoteexecution.ServerCapabilities, error) {
	return nil, status.Error(codes.Unimplemented, "not part of C12")
}

// configuredStack builds a sharding composite the way bb_storage does: from a configuration
// message, through NewBlobAccessFromConfiguration. Shard i is an `error` backend whose status has
// code codeOf(i) and message "injected-<i>", so that an error observed at the top tells which
// backend produced it. (The shards are a map in the configuration: their order is not ours.)
func configuredStack(ss []shard) (ba blobstore.BlobAccess, reply string) {
	shards := map[string]*pb.ShardingBlobAccessConfiguration_Shard{}
	for i, sh := range ss {
		shards[sh.key] = &pb.ShardingBlobAccessConfiguration_Shard{
			Weight: sh.w,
			Backend: &pb.BlobAccessConfiguration{Backend: &pb.BlobAccessConfiguration_Error{
				Error: &status_pb.Status{Code: int32(cfgCode(i)), Message: fmt.Sprintf("injected-%d", i)}}},
		}
	}
	var err error
	if p := guard(func() {
		var info blobstore_configuration.BlobAccessInfo
		info, err = blobstore_configuration.NewBlobAccessFromConfiguration(nil,
			&pb.BlobAccessConfiguration{Backend: &pb.BlobAccessConfiguration_Sharding{Sharding: &pb.ShardingBlobAccessConfiguration{Shards: shards}}},
			blobstore_configuration.NewCASBlobAccessCreator(nil, 1<<20, nil))
		ba = info.BlobAccess
	}); p != "" {
		return nil, "panic"
	}
	if err != nil {
		return nil, "error:" + status.Code(err).String()
	}
	return ba, "ok"
}

func cfgCode(i int) codes.Code {
	return []codes.Code{codes.Unavailable, codes.Internal, codes.NotFound, codes.DataLoss, codes.Aborted}[i%5]
}

// ---------------------------------------------------------------- one case

type sut struct {
	shards []shard
	sel    sharding.ShardSelector // the one inside the composite
	ref    sharding.ShardSelector // a second instance, used by the oracle to know where a digest belongs
	ba     blobstore.BlobAccess
	st     *access
	routes map[uint64]int // leading hash bytes -> backend observed so far (any operation, any instance name)
}

func (s *sut) install(ss []shard) string {
	sel, reply := newSelector(ss)
	s.shards, s.sel, s.ref, s.ba = nil, nil, nil, nil
	s.routes = map[uint64]int{}
	if sel == nil {
		return reply
	}
	s.shards = ss
	s.sel = sel
	s.ref, _ = newSelector(ss)
	backends := make([]sharding.ShardBackend, 0, len(ss))
	for i, sh := range ss {
		backends = append(backends, sharding.ShardBackend{Backend: &recBackend{idx: i, st: s.st}, Key: sh.key})
	}
	s.ba = sharding.NewShardingBlobAccess(backends, sel)
	return reply
}

func (s *sut) keyIndex(key string) int {
	for i, sh := range s.shards {
		if sh.key == key {
			return i
		}
	}
	return -1
}

func showCalls(cs []recCall) string {
	sort.SliceStable(cs, func(i, j int) bool { return cs[i].idx < cs[j].idx })
	var parts []string
	for _, c := range cs {
		switch c.kind {
		case "fm":
			parts = append(parts, fmt.Sprintf("%d=[%s]", c.idx, strings.Join(c.toks, ",")))
		case "getc":
			parts = append(parts, fmt.Sprintf("getc%d=%s>%s", c.idx, c.toks[0], c.toks[1]))
		default:
			parts = append(parts, fmt.Sprintf("%s%d=%s", c.kind, c.idx, c.toks[0]))
		}
	}
	return strings.Join(parts, " ")
}

// errInfo decodes an error produced through the composite: gRPC code, the
// shard key in the "Shard <key>: " prefix, and which backend's injected error it wraps.
func errInfo(err error) (code codes.Code, key string, origin int) {
	code = status.Code(err)
	msg := status.Convert(err).Message()
	key, origin = "?", -1
	i := strings.LastIndex(msg, "injected-")
	if i >= 0 {
		if o, e := strconv.Atoi(msg[i+len("injected-"):]); e == nil {
			origin = o
		}
		if strings.HasPrefix(msg, "Shard ") && i >= len("Shard ")+2 && msg[i-2:i] == ": " {
			key = msg[len("Shard ") : i-2]
		}
	}
	return
}

type caseResult struct {
	what, detail string
	lines, impl  []string
	relaxed      map[int]bool // line indices compared only up to "-> error"
	tail         map[int]bool // line indices compared only from "-> " on (the calls are not observable)
	pairs        int          // (map, hash) evaluations
	nontrivial   bool
}

func (r *caseResult) fail(what, detail string) {
	if r.what == "" {
		r.what, r.detail = what, detail
	}
}

func permutations(n int) [][]int {
	var out [][]int
	p := make([]int, n)
	for i := range p {
		p[i] = i
	}
	var rec func(k int)
	rec = func(k int) {
		if k == n {
			out = append(out, append([]int{}, p...))
			return
		}
		for i := k; i < n; i++ {
			p[k], p[i] = p[i], p[k]
			rec(k + 1)
			p[k], p[i] = p[i], p[k]
		}
	}
	rec(0)
	return out
}

func parseHashes(ws []string) ([]uint64, bool) {
	var hs []uint64
	for _, w := range ws {
		h, err := strconv.ParseUint(w, 10, 64)
		if err != nil {
			return nil, false
		}
		hs = append(hs, h)
	}
	return hs, true
}

// execute runs a script against the real code, producing the model's request lines with the
// implementation's replies, and checks the C12 oracle on the way.
func execute(script []string, permLimit int) *caseResult {
	res := &caseResult{relaxed: map[int]bool{}, tail: map[int]bool{}}
	st := &access{returned: map[int][]string{}, fm: map[int]fmAns{}, gp: map[int]codes.Code{}, waitAbove: -1}
	s := &sut{st: st, routes: map[uint64]int{}}
	ordered := true
	var cfgBA blobstore.BlobAccess
	var cfgShards []shard
	var cfgRef sharding.ShardSelector
	emit := func(line, reply string) {
		res.lines = append(res.lines, line)
		res.impl = append(res.impl, reply)
	}
	// both sides start from nothing
	emit("clear", "ok")
	emit("sel", s.install(nil))

	chosen := func(sel sharding.ShardSelector, ss []shard, h uint64) (string, string) {
		idx, p := getShard(sel, len(ss), h)
		if p != "" {
			res.fail("shard selection panicked or returned an index outside the shard list", fmt.Sprintf("hash %d over %s: %s", h, selLine(ss), p))
			return "panic", ""
		}
		res.pairs++
		return fmt.Sprintf("%d %s", idx, ss[idx].key), ss[idx].key
	}
	allPositive := func(ss []shard) bool {
		for _, sh := range ss {
			if sh.w == 0 {
				return false
			}
		}
		return true
	}
	observeRoute := func(first8 uint64, idx int, op, tok string) {
		if prev, ok := s.routes[first8]; ok && prev != idx {
			res.fail("operations on digests with the same leading hash bytes reached different shards",
				fmt.Sprintf("%s %s reached backend %d, an earlier operation on the same leading bytes reached %d", op, tok, idx, prev))
		}
		s.routes[first8] = idx
	}

	for _, line := range script {
		w := strings.Fields(line)
		if len(w) == 0 {
			continue
		}
		switch w[0] {
		case "#mode":
			ordered = len(w) < 2 || w[1] != "free"
		case "splitmix64", "log2fixed":
			if len(w) != 2 {
				continue
			}
			x, err := strconv.ParseUint(w[1], 10, 64)
			if err != nil {
				continue
			}
			var v uint64
			p := guard(func() {
				if w[0] == "splitmix64" {
					v = realSplitmix64(x)
				} else {
					v = sharding.Log2Fixed(x)
				}
			})
			if p != "" {
				res.fail("fixed point score arithmetic panicked", fmt.Sprintf("%s: %s", line, p))
				emit(line, "panic")
				continue
			}
			if w[0] == "log2fixed" && v >= 64<<16 {
				res.fail("fixed point logarithm reached 64<<16 (the divisor of the score is not positive)", fmt.Sprintf("Log2Fixed(%d) = %d", x, v))
			}
			emit(line, strconv.FormatUint(v, 10))
		case "score":
			if len(w) != 3 {
				continue
			}
			x, err1 := strconv.ParseUint(w[1], 10, 64)
			wt, err2 := strconv.ParseUint(w[2], 10, 32)
			if err1 != nil || err2 != nil {
				continue
			}
			var v uint64
			if p := guard(func() { v = realScore(x, uint32(wt)) }); p != "" {
				res.fail("fixed point score arithmetic panicked", fmt.Sprintf("%s: %s", line, p))
				emit(line, "panic")
				continue
			}
			if wt != 0 && v == 0 {
				res.fail("a shard with non-zero weight got score zero", fmt.Sprintf("score(%d, %d) = 0", x, wt))
			}
			emit(line, strconv.FormatUint(v, 10))
		case "sel":
			ss, ok := parseShards(w[1:])
			if !ok {
				continue
			}
			emit(line, s.install(ss))
		case "getshard":
			if len(w) != 2 {
				continue
			}
			h, err := strconv.ParseUint(w[1], 10, 64)
			if err != nil {
				continue
			}
			if s.sel == nil {
				emit(line, "bad-op")
				continue
			}
			r, _ := chosen(s.sel, s.shards, h)
			emit(line, r)
		case "#perm":
			hs, ok := parseHashes(w[1:])
			if !ok || s.sel == nil {
				continue
			}
			base := make([]string, len(hs))
			for i, h := range hs {
				_, base[i] = chosen(s.sel, s.shards, h)
			}
			perms := permutations(len(s.shards))
			if len(perms) > permLimit {
				// deterministic thinning: keep every k-th permutation plus the reversal
				k := (len(perms) + permLimit - 1) / permLimit
				var keep [][]int
				for i := 0; i < len(perms); i += k {
					keep = append(keep, perms[i])
				}
				perms = append(keep, perms[len(perms)-1])
			}
			for _, p := range perms {
				ss := make([]shard, len(p))
				for i, j := range p {
					ss[i] = s.shards[j]
				}
				sel, reply := newSelector(ss)
				emit(selLine(ss), reply)
				if sel == nil {
					res.fail("constructor rejected a permutation of an accepted shard list", selLine(ss)+": "+reply)
					continue
				}
				for i, h := range hs {
					r, key := chosen(sel, ss, h)
					emit(fmt.Sprintf("getshard %d", h), r)
					if key != base[i] && allPositive(ss) {
						res.fail("shard choice depends on the order in which shards are listed",
							fmt.Sprintf("hash %d: %q under %s, %q under %s", h, base[i], selLine(s.shards), key, selLine(ss)))
					}
				}
			}
			if len(s.shards) >= 2 {
				res.nontrivial = true
			}
			emit(selLine(s.shards), "ok") // model back to the base list
		case "#alias":
			// The selector must own its shard map: build one from a slice, then reuse that slice the
			// way a caller deriving the next configuration would (in-place removal, new weights,
			// clearing) and ask the OLD selector again. Real code only, no model line.
			hs, ok := parseHashes(w[1:])
			if !ok || s.sel == nil {
				continue
			}
			for k := uint64(0); k < 200 && len(hs) > 0; k++ { // a few hundred more, derived from the given ones
				hs = append(hs, realSplitmix64(hs[0]+k*0x9e3779b97f4a7c15))
			}
			mutations := []struct {
				name string
				f    func(in []sharding.Shard)
			}{
				{"in-place removal of the first shard (append(s[:0], s[1:]...))", func(in []sharding.Shard) {
					out := append(in[:0], in[1:]...)
					in[len(out)] = sharding.Shard{}
				}},
				{"overwriting the weights", func(in []sharding.Shard) {
					for i := range in {
						in[i].Weight = uint32(1 + (i*7)%3)
					}
				}},
				{"reversing the slice", func(in []sharding.Shard) {
					for i, j := 0, len(in)-1; i < j; i, j = i+1, j-1 {
						in[i], in[j] = in[j], in[i]
					}
				}},
				{"clearing the slice", func(in []sharding.Shard) {
					for i := range in {
						in[i] = sharding.Shard{}
					}
				}},
			}
			for _, m := range mutations {
				in := make([]sharding.Shard, 0, len(s.shards))
				for _, sh := range s.shards {
					in = append(in, sharding.Shard{Key: sh.key, Weight: sh.w})
				}
				var sel sharding.ShardSelector
				var err error
				if p := guard(func() { sel, err = sharding.NewRendezvousShardSelector(in) }); p != "" || err != nil || sel == nil {
					break
				}
				before := make([]int, len(hs))
				for i, h := range hs {
					before[i], _ = getShard(sel, len(s.shards), h)
				}
				m.f(in)
				for i, h := range hs {
					after, p := getShard(sel, len(s.shards), h)
					res.pairs++
					if after != before[i] || p != "" {
						res.fail("a selector's routing changed although its shard map did not (it depends on memory the caller still owns)",
							fmt.Sprintf("%s, hash %d: index %d before, %d %s after %s of the slice the selector was built from", selLine(s.shards), h, before[i], after, p, m.name))
						break
					}
				}
			}
			res.nontrivial = true
		case "#remove":
			hs, ok := parseHashes(w[1:])
			if !ok || s.sel == nil || len(s.shards) < 2 {
				continue
			}
			for j := range s.shards {
				ss := append(append([]shard{}, s.shards[:j]...), s.shards[j+1:]...)
				sel, reply := newSelector(ss)
				emit(selLine(ss), reply)
				if sel == nil {
					res.fail("constructor rejected a sub-list of an accepted shard list", selLine(ss)+": "+reply)
					continue
				}
				for _, h := range hs {
					_, before := chosen(s.sel, s.shards, h)
					r, after := chosen(sel, ss, h)
					emit(fmt.Sprintf("getshard %d", h), r)
					if before != s.shards[j].key && after != before && allPositive(s.shards) {
						res.fail("removing a shard re-routed an object that was not assigned to it",
							fmt.Sprintf("hash %d: %q before, %q after removing %q from %s", h, before, after, s.shards[j].key, selLine(s.shards)))
					}
				}
			}
			res.nontrivial = true
			emit(selLine(s.shards), "ok")
		case "#add":
			// #add <position> <key>:<kh>:<w> <hash>*
			if len(w) < 3 || s.sel == nil {
				continue
			}
			pos, err := strconv.Atoi(w[1])
			nsh, ok1 := parseShards(w[2:3])
			hs, ok2 := parseHashes(w[3:])
			if err != nil || !ok1 || !ok2 || pos < 0 || pos > len(s.shards) || s.keyIndex(nsh[0].key) >= 0 {
				continue
			}
			ss := append(append(append([]shard{}, s.shards[:pos]...), nsh[0]), s.shards[pos:]...)
			sel, reply := newSelector(ss)
			emit(selLine(ss), reply)
			if sel == nil {
				res.fail("constructor rejected an accepted shard list extended by a fresh shard", selLine(ss)+": "+reply)
				continue
			}
			for _, h := range hs {
				_, before := chosen(s.sel, s.shards, h)
				r, after := chosen(sel, ss, h)
				emit(fmt.Sprintf("getshard %d", h), r)
				if after != before && after != nsh[0].key && allPositive(ss) {
					res.fail("adding a shard re-routed an object to a shard other than the new one",
						fmt.Sprintf("hash %d: %q before, %q after adding %q to %s", h, before, after, nsh[0].key, selLine(s.shards)))
				}
			}
			res.nontrivial = true
			emit(selLine(s.shards), "ok")
		case "route":
			if len(w) != 2 || s.sel == nil {
				continue
			}
			raw, err := hex.DecodeString(w[1])
			if err != nil || len(raw) < 8 {
				continue
			}
			r, _ := chosen(s.sel, s.shards, binary.BigEndian.Uint64(raw[:8]))
			emit(line, strings.Fields(r)[0])
		case "clear":
			st.fm, st.gp = map[int]fmAns{}, map[int]codes.Code{}
			emit(line, "ok")
		case "fmans":
			if len(w) < 3 {
				continue
			}
			i, err := strconv.Atoi(w[1])
			if err != nil || i < 0 {
				continue
			}
			switch w[2] {
			case "err":
				if len(w) != 4 {
					continue
				}
				c, err := strconv.Atoi(w[3])
				if err != nil || c < 1 || c > 16 {
					continue
				}
				st.fm[i] = fmAns{kind: "err", code: codes.Code(c)}
			case "missing", "raw":
				var set []digest.Digest
				ok := true
				for _, t := range w[3:] {
					d, _, okd := parseDigest(t)
					ok = ok && okd
					set = append(set, d)
				}
				if !ok {
					continue
				}
				st.fm[i] = fmAns{kind: w[2], set: set}
			default:
				continue
			}
			emit(line, "ok")
		case "gpans":
			if len(w) < 3 {
				continue
			}
			i, err := strconv.Atoi(w[1])
			if err != nil || i < 0 {
				continue
			}
			if w[2] == "ok" && len(w) == 3 {
				delete(st.gp, i)
			} else if w[2] == "err" && len(w) == 4 {
				c, err := strconv.Atoi(w[3])
				if err != nil || c < 1 || c > 16 {
					continue
				}
				st.gp[i] = codes.Code(c)
			} else {
				continue
			}
			emit(line, "ok")
		case "#cfgstack":
			// a stack built from a configuration message; the model gets the same shard list with
			// every backend failing the way the `error` backends do
			ss, ok := parseShards(w[1:])
			if !ok || len(ss) == 0 {
				continue
			}
			cfgBA, cfgShards = nil, nil
			emit(selLine(ss), s.install(ss))
			if s.sel == nil {
				continue
			}
			st.fm, st.gp = map[int]fmAns{}, map[int]codes.Code{}
			emit("clear", "ok")
			for i := range ss {
				st.gp[i] = cfgCode(i)
				st.fm[i] = fmAns{kind: "err", code: cfgCode(i)}
				emit(fmt.Sprintf("gpans %d err %d", i, cfgCode(i)), "ok")
				emit(fmt.Sprintf("fmans %d err %d", i, cfgCode(i)), "ok")
			}
			ba, reply := configuredStack(ss)
			if ba == nil {
				if allPositive(ss) {
					res.fail("a valid sharding configuration was rejected", selLine(ss)+": "+reply)
				}
				continue
			}
			cfgBA, cfgShards = ba, ss
			cfgRef, _ = newSelector(ss)
		case "cget", "cput", "cgetc":
			if cfgBA == nil || len(w) < 2 {
				continue
			}
			d, first8, ok := parseDigest(w[1])
			d2 := d
			if w[0] == "cgetc" {
				if len(w) != 3 {
					continue
				}
				var ok2 bool
				d2, _, ok2 = parseDigest(w[2])
				ok = ok && ok2
			} else if len(w) != 2 {
				continue
			}
			if !ok {
				continue
			}
			var err error
			p := guard(func() {
				switch w[0] {
				case "cget":
					_, err = cfgBA.Get(context.Background(), d).ToByteSlice(1000)
				case "cput":
					err = cfgBA.Put(context.Background(), d, buffer.NewValidatedBufferFromByteSlice([]byte("payload")))
				default:
					_, err = cfgBA.GetFromComposite(context.Background(), d, d2, nil).ToByteSlice(1000)
				}
			})
			if p != "" {
				res.fail("the sharding composite panicked", fmt.Sprintf("%s: %s", line, p))
				continue
			}
			want, _ := getShard(cfgRef, len(cfgShards), first8)
			c, key, origin := errInfo(err)
			arg := w[1]
			if w[0] == "cgetc" {
				arg += ">" + w[2]
			}
			if err == nil {
				res.fail("a backend error was swallowed by the sharding composite", line)
				emit(strings.Join(append([]string{w[0][1:]}, w[1:]...), " "), fmt.Sprintf("%s?=%s ok", w[0][1:], arg))
				continue
			}
			if origin != want {
				res.fail("a configured sharding stack addressed a backend other than the one the selector assigns to the digest's leading hash bytes",
					fmt.Sprintf("%s over %s: answered by backend %d, selector says %d (%v)", line, selLine(cfgShards), origin, want, err))
			} else if key != cfgShards[origin].key || c != cfgCode(origin) {
				res.fail("an error returned through the sharding composite does not carry the failing shard's key and code",
					fmt.Sprintf("%s over configured stack %s: got %v, failing backend %d key %q code %d", line, selLine(cfgShards), err, origin, cfgShards[origin].key, cfgCode(origin)))
			}
			res.nontrivial = true
			emit(strings.Join(append([]string{w[0][1:]}, w[1:]...), " "), fmt.Sprintf("%s%d=%s error %d shard %s", w[0][1:], origin, arg, c, key))
		case "cfm":
			if cfgBA == nil {
				continue
			}
			sb := digest.NewSetBuilder(len(w))
			owners := map[int]bool{}
			ok := true
			seen := map[string]bool{}
			for _, t := range w[1:] {
				d, f8, okd := parseDigest(t)
				ok = ok && okd && !seen[t]
				seen[t] = true
				if okd {
					sb.Add(d)
					o, _ := getShard(cfgRef, len(cfgShards), f8)
					owners[o] = true
				}
			}
			if !ok {
				continue
			}
			var out digest.Set
			var err error
			if p := guard(func() { out, err = cfgBA.FindMissing(context.Background(), sb.Build()) }); p != "" {
				res.fail("the sharding composite panicked", fmt.Sprintf("%s: %s", line, p))
				continue
			}
			n := len(res.lines)
			res.tail[n] = true
			if len(owners) >= 2 {
				res.relaxed[n] = true
			}
			if err == nil {
				if len(owners) > 0 {
					res.fail("a backend error was swallowed by the sharding composite", line)
				}
				emit("fm "+strings.Join(w[1:], " "), "calls ? -> ok "+strings.Join(setToks(out), ","))
				continue
			}
			c, key, origin := errInfo(err)
			if !owners[origin] {
				res.fail("FindMissing reported an error although no asked backend failed", fmt.Sprintf("%s over configured stack %s: %v", line, selLine(cfgShards), err))
			} else if key != cfgShards[origin].key || c != cfgCode(origin) {
				res.fail("an error returned through the sharding composite does not carry the failing shard's key and code",
					fmt.Sprintf("%s over configured stack %s: got %v, failing backend %d key %q code %d", line, selLine(cfgShards), err, origin, cfgShards[origin].key, cfgCode(origin)))
			}
			res.nontrivial = true
			emit("fm "+strings.Join(w[1:], " "), fmt.Sprintf("calls ? -> error %d shard %s", c, key))
		case "dump":
			// the constructor's stored list, read through reflection (skipped when the selector has
			// another shape: then there is nothing to compare, the behavioural checks remain)
			if s.sel == nil {
				emit(line, "bad-op")
				continue
			}
			if d, ok := dumpSelector(s.sel); ok {
				emit(line, d)
			}
		case "getc":
			if len(w) != 3 {
				continue
			}
			pd, first8, ok1 := parseDigest(w[1])
			cd, _, ok2 := parseDigest(w[2])
			if !ok1 || !ok2 {
				continue
			}
			if s.ba == nil {
				emit(line, "bad-op")
				continue
			}
			st.calls = nil
			var err error
			if p := guard(func() { _, err = s.ba.GetFromComposite(context.Background(), pd, cd, nil).ToByteSlice(1000) }); p != "" {
				res.fail("the sharding composite panicked", fmt.Sprintf("%s: %s", line, p))
				emit(line, "panic")
				continue
			}
			calls := append([]recCall{}, st.calls...)
			reply := showCalls(calls)
			want, _ := getShard(s.ref, len(s.shards), first8)
			if len(calls) != 1 || calls[0].kind != "getc" || calls[0].toks[0] != w[1] || calls[0].toks[1] != w[2] {
				res.fail("GetFromComposite did not result in exactly one identical call on one backend", fmt.Sprintf("%s: calls %s", line, reply))
			} else {
				if calls[0].idx != want {
					res.fail("GetFromComposite addressed a backend other than the one holding the parent object",
						fmt.Sprintf("%s: backend %d, the selector assigns the parent's leading hash bytes to %d", line, calls[0].idx, want))
				}
				observeRoute(first8, calls[0].idx, "GetFromComposite", w[1])
				code, fails := st.gp[calls[0].idx]
				if fails {
					c, key, origin := errInfo(err)
					if err == nil {
						res.fail("a backend error was swallowed by the sharding composite", line)
					} else if origin != calls[0].idx || c != code || key != s.shards[calls[0].idx].key {
						res.fail("an error returned through the sharding composite does not carry the failing shard's key and code",
							fmt.Sprintf("%s: got %v, failing backend %d key %q code %d", line, err, calls[0].idx, s.shards[calls[0].idx].key, code))
					}
				} else if err != nil {
					res.fail("the sharding composite reported an error although the backend succeeded", fmt.Sprintf("%s: %v", line, err))
				}
			}
			if err != nil {
				c, key, _ := errInfo(err)
				reply += fmt.Sprintf(" error %d shard %s", c, key)
			} else {
				reply += " ok"
			}
			res.nontrivial = true
			emit(line, reply)
		case "get", "put":
			if len(w) != 2 {
				continue
			}
			d, first8, ok := parseDigest(w[1])
			if !ok {
				continue
			}
			if s.ba == nil {
				emit(line, "bad-op")
				continue
			}
			st.calls = nil
			var err error
			p := guard(func() {
				if w[0] == "get" {
					_, err = s.ba.Get(context.Background(), d).ToByteSlice(1000)
				} else {
					err = s.ba.Put(context.Background(), d, buffer.NewValidatedBufferFromByteSlice([]byte("payload")))
				}
			})
			if p != "" {
				res.fail("the sharding composite panicked", fmt.Sprintf("%s: %s", line, p))
				emit(line, "panic")
				continue
			}
			calls := append([]recCall{}, st.calls...)
			reply := showCalls(calls)
			want, _ := getShard(s.ref, len(s.shards), first8)
			if len(calls) != 1 || calls[0].kind != w[0] || calls[0].toks[0] != w[1] {
				res.fail("Get/Put did not result in exactly one identical call on one backend", fmt.Sprintf("%s: calls %s", line, reply))
			} else {
				if calls[0].idx != want {
					res.fail("Get/Put addressed a backend other than the one the selector assigns to the digest's leading hash bytes",
						fmt.Sprintf("%s: backend %d, selector says %d", line, calls[0].idx, want))
				}
				observeRoute(first8, calls[0].idx, w[0], w[1])
				code, fails := st.gp[calls[0].idx]
				if fails {
					c, key, origin := errInfo(err)
					if err == nil {
						res.fail("a backend error was swallowed by the sharding composite", line)
					} else if origin != calls[0].idx || c != code || key != s.shards[calls[0].idx].key {
						res.fail("an error returned through the sharding composite does not carry the failing shard's key and code",
							fmt.Sprintf("%s: got %v, failing backend %d key %q code %d", line, err, calls[0].idx, s.shards[calls[0].idx].key, code))
					}
				} else if err != nil {
					res.fail("the sharding composite reported an error although the backend succeeded", fmt.Sprintf("%s: %v", line, err))
				}
			}
			if err != nil {
				c, key, _ := errInfo(err)
				reply += fmt.Sprintf(" error %d shard %s", c, key)
			} else {
				reply += " ok"
			}
			res.nontrivial = true
			emit(line, reply)
		case "fm":
			var ds []digest.Digest
			var firsts []uint64
			ok := true
			seen := map[string]bool{}
			for _, t := range w[1:] {
				d, f8, okd := parseDigest(t)
				ok = ok && okd && !seen[t]
				seen[t] = true
				ds = append(ds, d)
				firsts = append(firsts, f8)
			}
			if !ok {
				continue
			}
			if s.ba == nil {
				emit(line, "bad-op")
				continue
			}
			// where the oracle expects each digest, from the independent selector instance
			expect := map[int][]string{}
			for i, t := range w[1:] {
				want, _ := getShard(s.ref, len(s.shards), firsts[i])
				expect[want] = append(expect[want], t)
			}
			var failing []int
			for i := range s.shards {
				if a, okA := st.fm[i]; okA && a.kind == "err" && len(expect[i]) > 0 {
					failing = append(failing, i)
				}
			}
			st.waitAbove = -1
			if ordered && len(failing) > 0 {
				st.waitAbove = failing[0]
			}
			sb := digest.NewSetBuilder(len(ds))
			for _, d := range ds {
				sb.Add(d)
			}
			st.calls = nil
			st.returned = map[int][]string{}
			var out digest.Set
			var err error
			if p := guard(func() { out, err = s.ba.FindMissing(context.Background(), sb.Build()) }); p != "" {
				res.fail("the sharding composite panicked", fmt.Sprintf("%s: %s", line, p))
				emit(line, "panic")
				continue
			}
			st.mu.Lock()
			calls := append([]recCall{}, st.calls...)
			returned := st.returned
			st.mu.Unlock()
			reply := "calls " + showCalls(calls)
			// oracle: every backend asked only about its own digests, at most once, every digest asked
			asked := map[int]bool{}
			for _, c := range calls {
				if c.kind != "fm" {
					res.fail("FindMissing caused a call other than FindMissing on a backend", fmt.Sprintf("%s: %s", line, reply))
					continue
				}
				if asked[c.idx] {
					res.fail("FindMissing asked one backend more than once", fmt.Sprintf("%s: %s", line, reply))
				}
				asked[c.idx] = true
				exp := append([]string{}, expect[c.idx]...)
				sort.Strings(exp)
				if len(exp) == 0 {
					res.fail("FindMissing asked a backend that holds none of the requested digests", fmt.Sprintf("%s: %s", line, reply))
				}
				if strings.Join(exp, ",") != strings.Join(c.toks, ",") {
					res.fail("FindMissing did not ask a backend exactly about the digests the selector assigns to it",
						fmt.Sprintf("%s: backend %d asked [%s], its digests are [%s]", line, c.idx, strings.Join(c.toks, ","), strings.Join(exp, ",")))
				}
			}
			for i, toks := range expect {
				if len(toks) > 0 && !asked[i] {
					res.fail("FindMissing did not ask a backend exactly about the digests the selector assigns to it",
						fmt.Sprintf("%s: backend %d was not asked about [%s]", line, i, strings.Join(toks, ",")))
				}
			}
			for i, t := range w[1:] {
				for _, c := range calls {
					for _, ct := range c.toks {
						if ct == t {
							observeRoute(firsts[i], c.idx, "FindMissing", t)
						}
					}
				}
			}
			var askedFailing []int
			for _, c := range calls {
				if a, okA := st.fm[c.idx]; okA && a.kind == "err" && c.kind == "fm" {
					askedFailing = append(askedFailing, c.idx)
				}
			}
			sort.Ints(askedFailing)
			if err != nil {
				c, key, origin := errInfo(err)
				reply += fmt.Sprintf(" -> error %d shard %s", c, key)
				okOrigin := false
				for _, i := range askedFailing {
					okOrigin = okOrigin || i == origin
				}
				if !okOrigin {
					res.fail("FindMissing reported an error although no asked backend failed", fmt.Sprintf("%s: %v", line, err))
				} else if key != s.shards[origin].key || c != st.fm[origin].code {
					res.fail("an error returned through the sharding composite does not carry the failing shard's key and code",
						fmt.Sprintf("%s: got %v, failing backend %d key %q code %d", line, err, origin, s.shards[origin].key, st.fm[origin].code))
				}
				if out.Length() != 0 {
					res.fail("FindMissing returned digests together with an error", line)
				}
				if !ordered && len(askedFailing) >= 2 {
					res.relaxed[len(res.lines)] = true // which of several concurrent failures wins is up to the scheduler
				}
			} else {
				got := setToks(out)
				reply += " -> ok " + strings.Join(got, ",")
				if len(askedFailing) > 0 {
					res.fail("a backend error was swallowed by the sharding composite", fmt.Sprintf("%s: backends %v failed, result %s", line, askedFailing, reply))
				}
				var union []string
				for _, toks := range returned {
					union = append(union, toks...)
				}
				union = dedupSorted(union)
				if strings.Join(union, ",") != strings.Join(got, ",") {
					res.fail("FindMissing did not return exactly the union of the backends' answers",
						fmt.Sprintf("%s: union [%s], result [%s]", line, strings.Join(union, ","), strings.Join(got, ",")))
				}
			}
			if len(calls) >= 2 {
				res.nontrivial = true
			}
			emit(line, reply)
		}
	}
	return res
}

func tailOf(s string) string {
	if i := strings.Index(s, "-> "); i >= 0 {
		return s[i:]
	}
	return s
}

func relax(s string) string {
	if i := strings.Index(s, "-> error"); i >= 0 {
		return s[:i+len("-> error")]
	}
	return s
}

// runCase executes a script on the implementation and on the model and compares.
func runCase(run *hx.Run, model *hx.Model, name string, script []string, permLimit int, report bool) (what string, agree bool, found []hx.Finding) {
	res := execute(script, permLimit)
	agree = true
	validated := false
	if model != nil {
		mo := model.Batch(res.lines)
		validated = true
		if report {
			run.Compared(len(mo))
		}
		for i := range mo {
			a, b := res.impl[i], mo[i]
			if res.tail[i] {
				a, b = tailOf(a), tailOf(b)
			}
			if res.relaxed[i] {
				a, b = relax(a), relax(b)
			}
			if a != b {
				agree = false
				found = append(found, hx.Finding{Kind: "disagreement", What: "model/implementation differ",
					Detail: fmt.Sprintf("step %d %q: impl=%q model=%q", i, res.lines[i], res.impl[i], mo[i]),
					Case:   name, Script: script, Impl: res.impl, Model: mo})
				break
			}
		}
	}
	if report {
		run.Case(script, res.nontrivial, validated)
		run.CountN("pairs:(map,hash)", res.pairs)
	}
	if res.what != "" {
		found = append(found, hx.Finding{Kind: "oracle", What: res.what, Detail: res.detail, Case: name, Script: script, Impl: res.impl})
	}
	return res.what, agree, found
}

// ---------------------------------------------------------------- generators

var keyPool = []string{"a", "b", "shard0", "shard1", "eu-west/1", "eu-west/2", "cache-α", "x", "storage-07", "Z"}

func genShards(r *hx.Rand, n int) []shard {
	used := map[string]bool{}
	var ss []shard
	for len(ss) < n {
		k := keyPool[r.Intn(len(keyPool))]
		if r.Chance(1, 3) {
			k = fmt.Sprintf("k%d", r.Intn(1000000))
		}
		if used[k] || strings.ContainsAny(k, ": \t") {
			continue
		}
		used[k] = true
		ss = append(ss, shard{key: k, kh: hashServer(k), w: pickWeight(r)})
	}
	return ss
}

// targetedHash picks an object hash such that shard `sh` sees exactly score input x.
func targetedHash(sh shard, x uint64) uint64 { return sh.kh ^ invSplitmix64(x) }

// findTie searches an object hash for which the two best shards have equal scores (where only the
// sort by key hash decides). Uses the real functions for the search; generator only.
func findTie(r *hx.Rand, ss []shard, budget int) (uint64, bool) {
	if len(ss) < 2 {
		return 0, false
	}
	for t := 0; t < budget; t++ {
		h := r.Uint64()
		var best, second uint64
		for _, sh := range ss {
			sc := realScore(realSplitmix64(sh.kh^h), sh.w)
			if sc > best {
				best, second = sc, best
			} else if sc > second {
				second = sc
			}
		}
		if best == second && best != 0 {
			return h, true
		}
	}
	return 0, false
}

func genHashes(r *hx.Rand, ss []shard, n int, run *hx.Run) []uint64 {
	var hs []uint64
	for len(hs) < n {
		switch x := r.Intn(10); {
		case x < 5:
			hs = append(hs, targetedHash(ss[r.Intn(len(ss))], boundary[r.Intn(len(boundary))]))
			run.Count("hash:boundary-targeted")
		case x < 6:
			hs = append(hs, []uint64{0, 1, ^uint64(0), 1 << 63}[r.Intn(4)])
			run.Count("hash:extreme")
		case x < 7:
			// low score inputs collide in score (coarse quotient): near-ties without search
			hs = append(hs, targetedHash(ss[r.Intn(len(ss))], uint64(r.Intn(4))))
			run.Count("hash:tiny-score-input")
		default:
			hs = append(hs, r.Uint64())
			run.Count("hash:random")
		}
	}
	return hs
}

func hashWords(hs []uint64) string {
	var p []string
	for _, h := range hs {
		p = append(p, strconv.FormatUint(h, 10))
	}
	return strings.Join(p, " ")
}

func genSelectorCase(r *hx.Rand, run *hx.Run, maxN int, tie bool) []string {
	n := r.Range(1, maxN)
	if tie && n < 2 {
		n = 2
	}
	ss := genShards(r, n)
	if tie {
		// equal weights make exact score ties reachable
		w := weightsOfInterest[r.Intn(len(weightsOfInterest))]
		for i := range ss {
			ss[i].w = w
		}
	}
	run.Count(fmt.Sprintf("shards:%d", n))
	script := []string{selLine(ss), "dump"}
	hs := genHashes(r, ss, r.Range(4, 10), run)
	if tie {
		for k := 0; k < 2; k++ {
			if h, ok := findTie(r, ss, 1<<20); ok {
				hs = append(hs, h)
				run.Count("hash:exact-score-tie")
			} else {
				run.Count("hash:tie-search-gave-up")
			}
		}
	}
	for _, h := range hs {
		script = append(script, fmt.Sprintf("getshard %d", h))
	}
	script = append(script, "#perm "+hashWords(hs), "#alias "+hashWords(hs))
	if n >= 2 {
		script = append(script, "#remove "+hashWords(hs))
	}
	// add a fresh shard at a random position
	for {
		nk := fmt.Sprintf("new%d", r.Intn(100000))
		dup := false
		for _, sh := range ss {
			dup = dup || sh.key == nk
		}
		if dup {
			continue
		}
		ns := shard{key: nk, kh: hashServer(nk), w: pickWeight(r)}
		if tie {
			ns.w = ss[0].w
		}
		hs2 := append(append([]uint64{}, hs...), targetedHash(ns, ^uint64(0)), targetedHash(ns, boundary[r.Intn(len(boundary))]))
		script = append(script, fmt.Sprintf("#add %d %s %s", r.Intn(n+1), ns.tok(), hashWords(hs2)))
		break
	}
	return script
}

// genAlmostUniformCase: all shards but one have the same weight, so that exactly one removal (or
// the addition of the odd shard to the uniform rest) switches between "all weights equal" and
// "weights differ". Object hashes are searched on which two of the equal-weight shards tie on the
// quantised score while the odd shard scores lower: such objects are not on the odd shard, so
// removing or adding it must not move them.
func genAlmostUniformCase(r *hx.Rand, run *hx.Run, maxN int) []string {
	n := r.Range(3, maxN)
	if maxN < 3 {
		n = 3
	}
	ss := genShards(r, n)
	w := weightsOfInterest[r.Intn(len(weightsOfInterest))]
	odd := r.Intn(n)
	oddW := pickWeight(r)
	for oddW == w {
		oddW = pickWeight(r)
	}
	var rest []shard
	for i := range ss {
		ss[i].w = w
		if i == odd {
			ss[i].w = oddW
		} else {
			rest = append(rest, ss[i])
		}
	}
	run.Count(fmt.Sprintf("shards:%d", n))
	run.Count("map:all-weights-equal-but-one")
	var hs []uint64
	for k := 0; k < 4; k++ {
		found := false
		for t := 0; t < 4 && !found; t++ {
			h, ok := findTie(r, rest, 1<<19)
			if ok {
				var top uint64
				for _, sh := range rest {
					if sc := realScore(realSplitmix64(sh.kh^h), sh.w); sc > top {
						top = sc
					}
				}
				if realScore(realSplitmix64(ss[odd].kh^h), oddW) < top {
					hs = append(hs, h)
					found = true
				}
			}
		}
		if found {
			run.Count("hash:tie-among-equal-weights-odd-shard-lower")
		} else {
			run.Count("hash:tie-search-gave-up")
		}
	}
	hs = append(hs, genHashes(r, ss, 3, run)...)
	script := []string{selLine(ss)}
	for _, h := range hs {
		script = append(script, fmt.Sprintf("getshard %d", h))
	}
	script = append(script, "#perm "+hashWords(hs), "#alias "+hashWords(hs), "#remove "+hashWords(hs))
	// the other direction: the uniform rest, then the odd shard is added
	script = append(script, selLine(rest))
	for _, h := range hs {
		script = append(script, fmt.Sprintf("getshard %d", h))
	}
	script = append(script, fmt.Sprintf("#add %d %s %s", r.Intn(len(rest)+1), ss[odd].tok(), hashWords(hs)))
	return script
}

// findNearTie searches an object hash on which the two best shards tie when every weight is
// divided by `factor`, although their real scores differ: the fixed point quotient is coarser for
// smaller weights, so such objects sit exactly where a rescaling of the weights changes the winner.
func findNearTie(r *hx.Rand, ss []shard, factor uint32, budget int) (uint64, bool) {
	for t := 0; t < budget; t++ {
		h := r.Uint64()
		var best, second, fbest, fsecond uint64
		for _, sh := range ss {
			x := realSplitmix64(sh.kh ^ h)
			if x>>63 != 0 {
				// divisors <= 2^16 give distinct quotients for every weight: no near-tie up here
				best = 0
				break
			}
			sc := realScore(x, sh.w/factor)
			if sc > best {
				best, second, fbest, fsecond = sc, best, realScore(x, sh.w), fbest
			} else if sc > second {
				second, fsecond = sc, realScore(x, sh.w)
			}
		}
		if best != 0 && best == second && fbest != fsecond {
			return h, true
		}
	}
	return 0, false
}

// genCommonFactorCase: weights with a common factor (all equal and > 1, or multiples of 2..100 or
// 2^16), object hashes at near-ties (see findNearTie) besides the usual ones, and the additions /
// removals that change the common factor: a shard of coprime weight is added to the list, and
// removed again from the longer list.
func genCommonFactorCase(r *hx.Rand, run *hx.Run, maxN int) []string {
	n := r.Range(2, 3)
	ss := genShards(r, n)
	g := uint32(r.PickInt(2, 3, 10, 100, 100, 1000, 65536))
	for i := range ss {
		ss[i].w = g
		if r.Chance(1, 4) {
			ss[i].w = g * uint32(r.Range(1, 3))
		}
	}
	run.Count(fmt.Sprintf("shards:%d", n))
	run.Count("map:weights-with-common-factor")
	var hs []uint64
	for k := 0; k < 3; k++ {
		if h, ok := findNearTie(r, ss, g, 1<<20); ok {
			hs = append(hs, h)
			run.Count("hash:near-tie-under-rescaled-weights")
		} else {
			run.Count("hash:tie-search-gave-up")
		}
	}
	hs = append(hs, genHashes(r, ss, 3, run)...)
	script := []string{selLine(ss), "dump"}
	for _, h := range hs {
		script = append(script, fmt.Sprintf("getshard %d", h))
	}
	script = append(script, "#perm "+hashWords(hs), "#alias "+hashWords(hs), "#remove "+hashWords(hs))
	nk := fmt.Sprintf("new%d", r.Intn(100000))
	ns := shard{key: nk, kh: hashServer(nk), w: uint32(r.PickInt(1, 1, int(g)+1, 7))}
	pos := r.Intn(n + 1)
	script = append(script, fmt.Sprintf("#add %d %s %s", pos, ns.tok(), hashWords(hs)))
	long := append(append(append([]shard{}, ss[:pos]...), ns), ss[pos:]...)
	script = append(script, selLine(long), "dump", "#remove "+hashWords(hs))
	return script
}

// genCtorCase: what the constructor rejects, and zero weights (model correspondence only).
func genCtorCase(r *hx.Rand, run *hx.Run) []string {
	ss := genShards(r, r.Range(1, 4))
	script := []string{"sel"}
	dup := append(append([]shard{}, ss...), ss[r.Intn(len(ss))])
	dup[len(dup)-1].w = pickWeight(r)
	script = append(script, selLine(dup), "getshard 5")
	run.Count("ctor:duplicate-key")
	zero := append([]shard{}, ss...)
	for i := range zero {
		if r.Chance(2, 3) {
			zero[i].w = 0
		}
	}
	script = append(script, selLine(zero))
	for _, h := range genHashes(r, zero, 4, run) {
		script = append(script, fmt.Sprintf("getshard %d", h))
	}
	run.Count("ctor:zero-weights")
	return script
}

func randHex(r *hx.Rand, n int) string { return hex.EncodeToString(r.Bytes(n)) }

func genAccessCase(r *hx.Rand, run *hx.Run, maxN int) []string {
	n := r.Range(1, maxN)
	ss := genShards(r, n)
	run.Count(fmt.Sprintf("access-shards:%d", n))
	script := []string{selLine(ss)}
	if r.Chance(1, 4) {
		script = append(script, "#mode free")
		run.Count("fm-mode:free-running")
	}
	// a pool of digests (all eight digest functions), some of them siblings sharing their first 8 hash bytes
	var pool []string
	nd := r.Range(1, 10)
	for len(pool) < nd {
		fn, l := pickFunction(r)
		run.Count(fmt.Sprintf("digest-function:%d", fn))
		hb := r.Bytes(l)
		if r.Chance(1, 3) {
			// aim at a boundary of some shard
			binary.BigEndian.PutUint64(hb[:8], targetedHash(ss[r.Intn(n)], boundary[r.Intn(len(boundary))]))
		}
		tok := mkTok(instanceNames[r.Intn(len(instanceNames))], fn, hb, r.PickInt(0, 1, 5, 1000000))
		pool = append(pool, tok)
		for r.Chance(1, 3) && len(pool) < nd+3 {
			// sibling: same leading 8 bytes, other instance name / size / tail / digest function
			fn2, l2 := pickFunction(r)
			hb2 := r.Bytes(l2)
			copy(hb2[:8], hb[:8])
			if r.Chance(1, 2) && l2 == l {
				copy(hb2, hb) // identical hash, only instance name and size differ
			}
			pool = append(pool, mkTok(instanceNames[r.Intn(len(instanceNames))], fn2, hb2, r.PickInt(0, 5, 77)))
			run.Count("digest:sibling-same-leading-bytes")
		}
		for r.Chance(1, 2) && len(pool) < nd+6 {
			// cousin: same digest function, the first 1..7 hash bytes equal, then different -
			// adjacent in the sorted set, but (unlike a sibling) free to belong to another shard
			hb2 := r.Bytes(l)
			copy(hb2[:r.Range(1, 7)], hb)
			pool = append(pool, mkTok(instanceNames[r.Intn(len(instanceNames))], fn, hb2, r.PickInt(0, 5, 77)))
			run.Count("digest:cousin-common-prefix-1..7-bytes")
		}
	}
	pool = dedupSorted(pool)
	subset := func(p int) []string {
		var out []string
		for _, t := range pool {
			if r.Chance(p, 100) {
				out = append(out, t)
			}
		}
		return out
	}
	nops := r.Range(3, 10)
	for i := 0; i < nops; i++ {
		if r.Chance(1, 3) {
			script = append(script, "clear")
		}
		// script the backends
		for b := 0; b < n; b++ {
			switch x := r.Intn(10); {
			case x < 4:
				script = append(script, fmt.Sprintf("fmans %d missing %s", b, strings.Join(subset(50), " ")))
			case x < 6:
				script = append(script, fmt.Sprintf("fmans %d err %d", b, r.PickInt(2, 4, 5, 13, 14)))
				run.Count("fault:FindMissing")
			case x < 7:
				// a backend that answers with digests it was not asked about
				script = append(script, fmt.Sprintf("fmans %d raw %s", b, strings.Join(subset(30), " ")))
				run.Count("backend:answers-unasked-digests")
			}
			if r.Chance(1, 4) {
				script = append(script, fmt.Sprintf("gpans %d err %d", b, r.PickInt(5, 8, 14)))
				run.Count("fault:Get/Put")
			} else if r.Chance(1, 4) {
				script = append(script, fmt.Sprintf("gpans %d ok", b))
			}
		}
		switch x := r.Intn(10); {
		case x < 5:
			script = append(script, strings.TrimSpace("fm "+strings.Join(subset(r.PickInt(0, 30, 60, 100)), " ")))
		case x < 6:
			script = append(script, "get "+pool[r.Intn(len(pool))])
		case x < 7:
			script = append(script, "put "+pool[r.Intn(len(pool))])
		case x < 9:
			// a composite read: parent and child are different objects, usually of different shards
			script = append(script, "getc "+pool[r.Intn(len(pool))]+" "+pool[r.Intn(len(pool))])
			run.Count("op:GetFromComposite")
		default:
			t := pool[r.Intn(len(pool))]
			script = append(script, "get "+t, "put "+t, "fm "+t, "getc "+t+" "+pool[r.Intn(len(pool))], "route "+strings.Split(t, ":")[2])
			run.Count("op:GetFromComposite")
		}
	}
	return script
}

// genPrefixFamilyCase: for every common prefix length of 1..7 bytes a family of digests of one
// digest function that agree on exactly that prefix (so they are neighbours in the sorted set yet
// routed independently), asked family by family and all together, and fetched one by one.
func genPrefixFamilyCase(r *hx.Rand, run *hx.Run, maxN int) []string {
	n := r.Range(2, maxN)
	ss := genShards(r, n)
	run.Count(fmt.Sprintf("access-shards:%d", n))
	script := []string{selLine(ss)}
	fn, l := pickFunction(r)
	run.Count(fmt.Sprintf("digest-function:%d", fn))
	var all []string
	for p := 1; p <= 7; p++ {
		stem := r.Bytes(l)
		var fam []string
		for k := r.Range(2, 4); k > 0; k-- {
			hb := r.Bytes(l)
			copy(hb[:p], stem)
			hb[p] = stem[p] ^ byte(1+r.Intn(255)) // differ right after the prefix
			inst, size := instanceNames[0], 5
			if r.Chance(1, 3) {
				inst, size = instanceNames[r.Intn(len(instanceNames))], r.PickInt(0, 5, 77)
			}
			fam = append(fam, mkTok(inst, fn, hb, size))
		}
		fam = dedupSorted(fam)
		run.CountN("digest:cousin-common-prefix-1..7-bytes", len(fam))
		script = append(script, "fm "+strings.Join(fam, " "))
		all = append(all, fam...)
	}
	all = dedupSorted(all)
	for b := 0; b < n; b++ {
		if r.Chance(1, 2) {
			var miss []string
			for _, t := range all {
				if r.Chance(1, 2) {
					miss = append(miss, t)
				}
			}
			script = append(script, fmt.Sprintf("fmans %d missing %s", b, strings.Join(miss, " ")))
		}
	}
	script = append(script, "fm "+strings.Join(all, " "))
	for i := 0; i < 4; i++ {
		t := all[r.Intn(len(all))]
		script = append(script, []string{"get ", "put "}[r.Intn(2)]+t)
	}
	return script
}

var prefixesOfInterest = []uint64{0, 0, 1, 1 << 63, ^uint64(0), 2, 255, 1 << 32}

func digestWithPrefix(r *hx.Rand, prefix uint64) string {
	fn, l := pickFunction(r)
	hb := r.Bytes(l)
	binary.BigEndian.PutUint64(hb[:8], prefix)
	// never size 0: a configured CAS stack answers for the empty blob itself (EmptyBlobInjecting), above the sharding layer
	return mkTok(instanceNames[r.Intn(len(instanceNames))], fn, hb, r.PickInt(1, 5, 77))
}

// genFreshCase: every rotation of a shard list gets a brand new composite, and the very first
// operation on it carries a digest whose leading eight hash bytes are a boundary value (all
// zero, 1, 2^63, all ones, ...); then the same digest again and alternations A B A, so that
// anything a composite might remember between calls (it must not matter) is exercised.
func genFreshCase(r *hx.Rand, run *hx.Run, maxN int) []string {
	n := r.Range(2, maxN)
	ss := genShards(r, n)
	run.Count(fmt.Sprintf("access-shards:%d", n))
	var script []string
	op := func(t, other string) string {
		switch r.Intn(4) {
		case 0:
			return "get " + t
		case 1:
			return "put " + t
		case 2:
			return "fm " + t
		}
		return "getc " + t + " " + other
	}
	for rot := 0; rot < n; rot++ {
		list := append(append([]shard{}, ss[rot:]...), ss[:rot]...)
		script = append(script, selLine(list))
		a := digestWithPrefix(r, prefixesOfInterest[r.Intn(len(prefixesOfInterest))])
		b := digestWithPrefix(r, prefixesOfInterest[r.Intn(len(prefixesOfInterest))])
		if r.Chance(1, 2) {
			b = digestWithPrefix(r, r.Uint64())
		}
		run.Count("op:first-on-fresh-composite-with-boundary-prefix")
		script = append(script, op(a, b), op(a, b), op(b, a), op(a, b), op(b, a), op(b, a))
		if r.Chance(1, 2) {
			script = append(script, "fm "+strings.Join(dedupSorted([]string{a, b}), " "))
		}
	}
	return script
}

// genConfigCase: the composite as bb_storage builds it, from a configuration message, with 1..4
// shards whose backends are `error` backends with distinct codes and messages.
func genConfigCase(r *hx.Rand, run *hx.Run) []string {
	n := r.Range(1, 4)
	ss := genShards(r, n)
	run.Count(fmt.Sprintf("configured-stack-shards:%d", n))
	script := []string{"#cfgstack " + strings.TrimPrefix(selLine(ss), "sel ")}
	var pool []string
	for i := r.Range(2, 6); i > 0; i-- {
		if r.Chance(1, 3) {
			pool = append(pool, digestWithPrefix(r, prefixesOfInterest[r.Intn(len(prefixesOfInterest))]))
		} else {
			pool = append(pool, digestWithPrefix(r, r.Uint64()))
		}
	}
	pool = dedupSorted(pool)
	pick := func() string { return pool[r.Intn(len(pool))] }
	for i := r.Range(3, 8); i > 0; i-- {
		switch r.Intn(5) {
		case 0:
			script = append(script, "cget "+pick())
		case 1:
			script = append(script, "cput "+pick())
		case 2:
			script = append(script, "cgetc "+pick()+" "+pick())
		case 3:
			script = append(script, "cfm "+pick())
		default:
			var sub []string
			for _, t := range pool {
				if r.Chance(1, 2) {
					sub = append(sub, t)
				}
			}
			script = append(script, strings.TrimSpace("cfm "+strings.Join(sub, " ")))
		}
	}
	return script
}

func leafScripts(r *hx.Rand, xs []uint64) [][]string {
	var all [][]string
	var cur []string
	for _, x := range xs {
		cur = append(cur, fmt.Sprintf("log2fixed %d", x), fmt.Sprintf("splitmix64 %d", x))
		for _, w := range weightsOfInterest {
			cur = append(cur, fmt.Sprintf("score %d %d", x, w))
		}
		cur = append(cur, fmt.Sprintf("score %d %d", x, pickWeight(r)))
		if len(cur) >= 120 {
			all = append(all, cur)
			cur = nil
		}
	}
	if len(cur) > 0 {
		all = append(all, cur)
	}
	return all
}

// twoShardLeafCase cross-checks score/splitmix64 the way the property sees them: through GetShard
// on one- and two-shard maps, with the first shard's score input pinned to a boundary value.
func twoShardLeafCase(r *hx.Rand, run *hx.Run, xs []uint64) []string {
	ss := genShards(r, r.Range(1, 2))
	script := []string{selLine(ss)}
	for _, x := range xs {
		script = append(script, fmt.Sprintf("getshard %d", targetedHash(ss[r.Intn(len(ss))], x)))
	}
	run.CountN("hash:boundary-targeted", len(xs))
	return script
}

// shrinkTokens drops digests / hashes from the list-carrying lines of an already line-minimal
// script while it keeps failing (hx.Shrink works on whole lines only).
func shrinkTokens(script []string, fails func([]string) bool) []string {
	cur := append([]string{}, script...)
	for i := range cur {
		w := strings.Fields(cur[i])
		keep := 0
		switch {
		case len(w) > 0 && (w[0] == "fm" || w[0] == "sel" || w[0] == "#perm" || w[0] == "#remove" || w[0] == "#alias"):
			keep = 1
		case len(w) > 0 && (w[0] == "fmans" || w[0] == "#add"):
			keep = 3
		default:
			continue
		}
		for j := len(w) - 1; j >= keep; j-- {
			cand := append(append([]string{}, w[:j]...), w[j+1:]...)
			trial := append([]string{}, cur...)
			trial[i] = strings.Join(cand, " ")
			if fails(trial) {
				w = cand
				cur = trial
			}
		}
	}
	return cur
}

// ---------------------------------------------------------------- the test

func TestC12(t *testing.T) {
	run := hx.NewRun("C12")
	defer run.Finish(t)
	model, err := hx.StartModel()
	if err != nil {
		t.Fatalf("start model: %v", err)
	}
	defer model.Close()
	run.HasModel = model != nil
	run.SetRule("shard maps of 1..5 shards (weights 1, 2, 2^32-1, random), object hashes aimed at the boundaries of the fixed point score " +
		"(by inverting splitmix64), exact score ties, maps whose weights are all equal but one or share a common factor (with near-tie hashes), every permutation / removal / one addition per map; composites over recording " +
		"backends with scripted FindMissing/Get/Put/GetFromComposite faults, sibling digests sharing their leading 8 hash bytes and cousin digests sharing only 1..7; " +
		"selectors re-queried after the slice they were built from was reused by the caller; fresh composites per rotation with boundary-prefix digests first; stacks built from configuration messages over error backends; " +
		"a case is non-trivial when it exercises permutation/removal/addition on >= 2 shards or an operation of the composite; distinct by script hash")
	permN := run.Scale(4, 5)
	permLimit := 120

	// the generator relies on inverting splitmix64; if the finaliser in /repo changes this only
	// makes inputs less targeted, it is not a finding by itself
	invOK := true
	for _, x := range boundary[:50] {
		invOK = invOK && realSplitmix64(invSplitmix64(x)) == x
	}
	run.Extra("splitmix64_inverse_matches_repo", invOK)

	// The search stops after 20 oracle hits. Disagreements with the model do not stop it (an
	// oracle hit, i.e. a concrete failing input, is what is looked for); only the first three
	// disagreeing cases are shrunk and reported.
	oracleHits, disagreeing := 0, 0
	enough := func() bool { return oracleHits >= 20 }
	handle := func(name string, script []string) {
		what, agree, found := runCase(run, model, name, script, permLimit, true)
		if what != "" {
			oracleHits++
		} else if !agree {
			disagreeing++
			if disagreeing > 3 {
				run.Count("disagreeing-cases-beyond-the-first-three")
				return
			}
		}
		if what != "" || !agree {
			small := hx.Shrink(script, 0, func(s []string) bool {
				w, a, _ := runCase(run, model, name, s, permLimit, false)
				if what != "" {
					return w == what
				}
				return !a
			})
			small = shrinkTokens(small, func(s []string) bool {
				w, a, _ := runCase(run, model, name, s, permLimit, false)
				if what != "" {
					return w == what
				}
				return !a
			})
			if strings.Join(small, "\n") != strings.Join(script, "\n") {
				if _, _, f2 := runCase(run, model, name+"/shrunk", small, permLimit, false); len(f2) > 0 {
					found = f2
				}
			}
		}
		for _, f := range found {
			run.Report(f)
		}
	}

	if name, script := run.ReplayScript(); script != nil {
		what, agree, found := runCase(run, model, name, script, permLimit, true)
		for _, f := range found {
			run.Report(f)
			t.Logf("%s: %s: %s", f.Kind, f.What, f.Detail)
		}
		res := execute(script, permLimit)
		for i := range res.lines {
			t.Logf("%-60s impl=%s", res.lines[i], res.impl[i])
		}
		t.Logf("replay %s: oracle=%q agree=%v", name, what, agree)
		return
	}
	for name, script := range run.CorpusScripts() {
		handle("corpus/"+name, script)
	}

	// 1. leaf functions at every boundary value (both tiers), plus random values
	r0 := hx.NewRand(run.Seed, "C12-leaf", 0)
	xs := append([]uint64{}, boundary...)
	for i := 0; i < run.Scale(6000, 400000); i++ {
		x := r0.Uint64()
		if r0.Chance(1, 2) {
			x >>= uint(r0.Intn(64))
		}
		xs = append(xs, x)
	}
	run.CountN("leaf:boundary-values", len(boundary))
	run.CountN("leaf:random-values", len(xs)-len(boundary))
	for i, s := range leafScripts(r0, xs) {
		if enough() {
			break
		}
		handle(fmt.Sprintf("seed%d/leaf%d", run.Seed, i), s)
	}
	for i := 0; i*64 < len(boundary) && !enough(); i++ {
		hi := (i + 1) * 64
		if hi > len(boundary) {
			hi = len(boundary)
		}
		handle(fmt.Sprintf("seed%d/leaf2shard%d", run.Seed, i), twoShardLeafCase(hx.NewRand(run.Seed, "C12-leaf2", i), run, boundary[i*64:hi]))
	}

	// 2. selector: permutation, removal, addition
	n := run.Scale(1500, 12000)
	for i := 0; i < n && !enough(); i++ {
		r := hx.NewRand(run.Seed, "C12-sel", i)
		handle(fmt.Sprintf("seed%d/sel%d", run.Seed, i), genSelectorCase(r, run, permN, i%5 == 0))
	}
	for i := 0; i < run.Scale(150, 2000) && !enough(); i++ {
		r := hx.NewRand(run.Seed, "C12-almost-uniform", i)
		handle(fmt.Sprintf("seed%d/almostuniform%d", run.Seed, i), genAlmostUniformCase(r, run, permN))
	}
	for i := 0; i < run.Scale(120, 1500) && !enough(); i++ {
		r := hx.NewRand(run.Seed, "C12-common-factor", i)
		handle(fmt.Sprintf("seed%d/commonfactor%d", run.Seed, i), genCommonFactorCase(r, run, permN))
	}
	for i := 0; i < run.Scale(40, 400) && !enough(); i++ {
		handle(fmt.Sprintf("seed%d/ctor%d", run.Seed, i), genCtorCase(hx.NewRand(run.Seed, "C12-ctor", i), run))
	}

	// 3. the composite
	n = run.Scale(4000, 60000)
	for i := 0; i < n && !enough(); i++ {
		r := hx.NewRand(run.Seed, "C12-access", i)
		handle(fmt.Sprintf("seed%d/access%d", run.Seed, i), genAccessCase(r, run, 5))
	}
	n = run.Scale(300, 4000)
	for i := 0; i < n && !enough(); i++ {
		handle(fmt.Sprintf("seed%d/fresh%d", run.Seed, i), genFreshCase(hx.NewRand(run.Seed, "C12-fresh", i), run, 5))
	}
	for i := 0; i < n && !enough(); i++ {
		handle(fmt.Sprintf("seed%d/config%d", run.Seed, i), genConfigCase(hx.NewRand(run.Seed, "C12-config", i), run))
	}
	n = run.Scale(400, 6000)
	for i := 0; i < n && !enough(); i++ {
		r := hx.NewRand(run.Seed, "C12-prefix", i)
		handle(fmt.Sprintf("seed%d/prefix%d", run.Seed, i), genPrefixFamilyCase(r, run, 5))
	}
}
