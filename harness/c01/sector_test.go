package c01

import (
	"bytes"
	"crypto/sha256"
	"encoding/hex"
	"fmt"
	"io"
	"strconv"
	"strings"
	"time"

	remoteexecution "github.com/bazelbuild/remote-apis/build/bazel/remote/execution/v2"
	"github.com/buildbarn/bb-storage/pkg/blobstore"
	"github.com/buildbarn/bb-storage/pkg/blobstore/buffer"
	"github.com/buildbarn/bb-storage/pkg/blobstore/local"
	"github.com/buildbarn/bb-storage/pkg/digest"
	"google.golang.org/grpc/codes"
	"google.golang.org/grpc/status"

	"verifharness/hx"
)

// Correspondence between BB.SectorWriter and blockDeviceBackedBlock.Put / blockDeviceBackedBlockWriter:
// real blocks of a real block-device backed allocator on a simulated device, any number of uploads into one
// block whose sources are delivered chunk by chunk in an arbitrary interleaving (one Write call of the real
// writer per delivered chunk), uploads that fail half way, uploads whose content does not match the digest.
// After every step the bytes of the block on the device are compared with the model's device, and the
// statement itself is checked on the device (oracle).
//
// Script language (one case = one script):
//   #sw <sectorSize> <sectorsPerBlock> <resumeOffset|-1>   block geometry; resumeOffset >= 0 re-attaches the
//                                                          block with NewBlockAtLocation at that write offset
//   obj <hex> [bad]      Put(len) if the block has space, and start the upload (bad: digest of other content)
//   chunk <i> <n>        deliver the next n bytes of upload i's source
//   eof <i>              end upload i's source (flush happens if everything was delivered and valid)
//   fail <i>             make upload i's source return an I/O error
//   failw <i> <n> <j>    deliver n bytes of upload i's source while the j-th device write it causes fails

type swInstr struct {
	data []byte
	err  error
}

type swUpload struct {
	data      []byte
	bad       bool
	start     int // packed offset expected
	delivered int
	withheld  []byte // final chunk handed to the validating reader but not yet written
	instr     chan swInstr
	ev        chan string
	done      bool
	finished  bool
	ok        bool
	fin       local.BlockPutFinalizer
}

type swReader struct{ u *swUpload }

func (r *swReader) Read() ([]byte, error) {
	r.u.ev <- "parked"
	in := <-r.u.instr
	return in.data, in.err
}
func (r *swReader) Close() {}

func swDigest(data []byte) digest.Digest {
	h := sha256.Sum256(data)
	return digest.MustNewDigest("sw", remoteexecution.DigestFunction_SHA256, hex.EncodeToString(h[:]), int64(len(data)))
}

// swWait waits until the upload parked at its next source read or finished.
func swWait(u *swUpload) {
	select {
	case e := <-u.ev:
		if e == "done" {
			u.done = true
		}
	case <-time.After(20 * time.Second):
		panic("sector harness: upload neither finished nor asked for more data within 20s")
	}
}

type swResult struct {
	lines, impl []string
	what        string
	detail      string
	flushed     int
	shared      int
	failDead    int
	failAlive   int
}

// swRun interprets a script on the real code. It returns the model lines with the implementation's replies and
// the first oracle failure, if any.
func swRun(script []string) (res swResult) {
	f := strings.Fields(script[0])
	if len(f) != 4 || f[0] != "#sw" {
		res.what, res.detail = "bad script", script[0]
		return
	}
	S, _ := strconv.Atoi(f[1])
	sectors, _ := strconv.Atoi(f[2])
	resume, _ := strconv.Atoi(f[3])
	dev := hx.NewMemDevice(3 * S * sectors) // the block under test is the middle one; the third is never handed out
	alloc := local.NewBlockDeviceBackedBlockAllocator(dev, blobstore.CASReadBufferFactory, S, int64(sectors), 2, "sw")
	b0, _, err := alloc.NewBlock()
	if err != nil {
		res.what, res.detail = "NewBlock failed", err.Error()
		return
	}
	block, loc, err := alloc.NewBlock()
	if err != nil {
		res.what, res.detail = "NewBlock failed", err.Error()
		return
	}
	_ = b0
	base := int(loc.OffsetBytes)
	if resume >= 0 {
		block.Release()
		var found bool
		block, found = alloc.NewBlockAtLocation(loc, int64(resume))
		if !found {
			res.what, res.detail = "NewBlockAtLocation did not find the released block", fmt.Sprint(loc)
			return
		}
		base += (resume + S - 1) / S * S
	}
	res.lines = append(res.lines, fmt.Sprintf("sw-init %d", S))
	res.impl = append(res.impl, "ok")
	var ups []*swUpload
	top := 0
	fail := func(what, detail string) {
		if res.what == "" {
			res.what, res.detail = what, detail
		}
	}
	image := func() string { return hx.Hex(dev.Data[base : base+top]) }
	logged := 0
	// report = device image of the block plus the WriteAt calls since the last report (first sector:sector count)
	report := func() string {
		var ws []string
		for _, wr := range dev.Pending[logged:] {
			rel := int(wr.Off) - base
			if rel < 0 || rel%S != 0 || len(wr.Data)%S != 0 || len(wr.Data) == 0 {
				fail("a device write of the block writer is not a run of whole sectors of its block", fmt.Sprintf("WriteAt(%d bytes, %d), block base %d, sector %d", len(wr.Data), wr.Off, base, S))
				continue
			}
			ws = append(ws, fmt.Sprintf("%d:%d", rel/S, len(wr.Data)/S))
			if int(wr.Off)+len(wr.Data) > int(loc.OffsetBytes)+S*sectors {
				fail("a device write of the block writer reaches beyond its block", fmt.Sprintf("WriteAt(%d bytes, %d), block [%d,%d)", len(wr.Data), wr.Off, loc.OffsetBytes, int(loc.OffsetBytes)+S*sectors))
			}
		}
		logged = len(dev.Pending)
		if len(ws) == 0 {
			return image() + " w=-"
		}
		return image() + " w=" + strings.Join(ws, ",")
	}
	check := func() {
		for i := range dev.Data {
			if (i < base || i >= base+top) && dev.Data[i] != 0 {
				fail("a block writer wrote outside the space handed out so far", fmt.Sprintf("device byte %d = %d, block space [%d,%d)", i, dev.Data[i], base, base+top))
				return
			}
		}
		for i, u := range ups {
			if u.ok && !bytes.Equal(dev.Data[base+u.start:base+u.start+len(u.data)], u.data) {
				fail("the bytes of a completed upload are not intact on the device", fmt.Sprintf("upload %d at %d: %x want %x", i, u.start, dev.Data[base+u.start:base+u.start+len(u.data)], u.data))
				return
			}
		}
	}
	finish := func(i int, u *swUpload) {
		if u.finished {
			return
		}
		u.finished = true
		off, err := u.fin()
		if int(off) != u.start+(base-int(loc.OffsetBytes)) {
			fail("Put did not place the object right behind the previous one", fmt.Sprintf("upload %d: offset %d, expected %d", i, off, u.start+(base-int(loc.OffsetBytes))))
		}
		u.ok = err == nil
	}
	for _, line := range script[1:] {
		w := strings.Fields(line)
		switch {
		case len(w) >= 2 && w[0] == "obj":
			var data []byte
			if w[1] != "-" {
				data, err = hex.DecodeString(w[1])
				if err != nil {
					continue
				}
			}
			space := block.HasSpace(int64(len(data)))
			res.lines = append(res.lines, fmt.Sprintf("sw-space %d %d", sectors-(base-int(loc.OffsetBytes))/S, len(data)))
			res.impl = append(res.impl, strconv.FormatBool(space))
			if !space {
				continue
			}
			u := &swUpload{data: data, bad: len(w) > 2 && w[2] == "bad", start: top, instr: make(chan swInstr), ev: make(chan string, 1)}
			d := swDigest(data)
			if u.bad {
				if len(data) == 0 {
					u.bad = false
				} else {
					other := append([]byte(nil), data...)
					other[0] ^= 1
					d = swDigest(other)
				}
			}
			pw := block.Put(int64(len(data)))
			res.lines = append(res.lines, fmt.Sprintf("sw-put %d", len(data)))
			res.impl = append(res.impl, fmt.Sprintf("%d %d", len(ups), top))
			top += len(data)
			ups = append(ups, u)
			if base+top > int(loc.OffsetBytes)+S*sectors {
				fail("HasSpace admitted an object that does not fit into the block", fmt.Sprintf("block of %d bytes at %d, objects now end at %d", S*sectors, loc.OffsetBytes, base+top))
				return
			}
			go func() {
				u.fin = pw(buffer.NewCASBufferFromChunkReader(d, &swReader{u: u}, buffer.UserProvided))
				u.ev <- "done"
			}()
			swWait(u)
			if u.done {
				finish(len(ups)-1, u)
			}
		case len(w) == 3 && w[0] == "chunk":
			i, e1 := strconv.Atoi(w[1])
			n, e2 := strconv.Atoi(w[2])
			if e1 != nil || e2 != nil || i < 0 || i >= len(ups) || n <= 0 || ups[i].done || ups[i].delivered == len(ups[i].data) {
				continue
			}
			u := ups[i]
			if n > len(u.data)-u.delivered {
				n = len(u.data) - u.delivered
			}
			chunk := u.data[u.delivered : u.delivered+n]
			u.delivered += n
			u.instr <- swInstr{data: append([]byte(nil), chunk...)}
			swWait(u)
			if u.delivered == len(u.data) {
				// the validating reader keeps the completing chunk until it has seen the end of the source
				u.withheld = chunk
			} else {
				res.lines = append(res.lines, fmt.Sprintf("sw-write %d %s", i, hx.Hex(chunk)))
				res.impl = append(res.impl, report())
			}
			if u.done {
				finish(i, u)
			}
		case len(w) == 4 && w[0] == "failw": // failw <i> <n> <j>: deliver n bytes while the j-th device write fails
			i, e1 := strconv.Atoi(w[1])
			n, e2 := strconv.Atoi(w[2])
			j, e3 := strconv.Atoi(w[3])
			if e1 != nil || e2 != nil || e3 != nil || i < 0 || i >= len(ups) || n <= 0 || j < 0 || ups[i].done {
				continue
			}
			u := ups[i]
			// never the completing chunk: the validating reader would hold it back until the end of the source
			if n > len(u.data)-u.delivered-1 {
				n = len(u.data) - u.delivered - 1
			}
			if n <= 0 {
				continue
			}
			chunk := u.data[u.delivered : u.delivered+n]
			u.delivered += n
			count := 0
			dev.FailWrite = func(int64, int) error {
				count++
				if count == j+1 {
					return status.Error(codes.Internal, "device write failed")
				}
				return nil
			}
			u.instr <- swInstr{data: append([]byte(nil), chunk...)}
			swWait(u)
			dev.FailWrite = nil
			res.lines = append(res.lines, fmt.Sprintf("sw-writefail %d %s %d", i, hx.Hex(chunk), j))
			if u.done {
				res.impl = append(res.impl, report()+" dead")
				res.failDead++
				finish(i, u)
				if u.ok {
					fail("an upload whose device write failed was acknowledged", fmt.Sprintf("upload %d", i))
				}
			} else {
				res.impl = append(res.impl, report()+" alive")
				res.failAlive++
			}
		case len(w) == 2 && (w[0] == "eof" || w[0] == "fail"):
			i, e1 := strconv.Atoi(w[1])
			if e1 != nil || i < 0 || i >= len(ups) || ups[i].done {
				continue
			}
			u := ups[i]
			if w[0] == "eof" {
				u.instr <- swInstr{err: io.EOF}
			} else {
				u.instr <- swInstr{err: status.Error(codes.Internal, "source failed")}
			}
			for !u.done {
				swWait(u)
				if !u.done {
					// asked for more after an error/EOF: keep answering EOF
					u.instr <- swInstr{err: io.EOF}
				}
			}
			finish(i, u)
			complete := w[0] == "eof" && u.delivered == len(u.data) && !u.bad
			if u.ok != complete {
				fail("an upload finished with the wrong outcome", fmt.Sprintf("upload %d: ok=%v, source complete and valid=%v", i, u.ok, complete))
			}
			if u.ok {
				res.flushed++
				if len(u.data) > 0 {
					res.lines = append(res.lines, fmt.Sprintf("sw-writeflush %d %s", i, hx.Hex(u.withheld)))
				} else {
					res.lines = append(res.lines, fmt.Sprintf("sw-flush %d", i))
				}
				res.impl = append(res.impl, report())
				if u.start%S != 0 || (u.start+len(u.data))%S != 0 {
					res.shared++
				}
			}
		default:
			continue
		}
		check()
	}
	// stop what is still running
	for i, u := range ups {
		for !u.done {
			u.instr <- swInstr{err: status.Error(codes.Internal, "case over")}
			swWait(u)
		}
		finish(i, u)
	}
	check()
	// read every completed object back through the block
	for i, u := range ups {
		if !u.ok {
			continue
		}
		off := int64(u.start + (base - int(loc.OffsetBytes)))
		got, err := block.Get(swDigest(u.data), off, int64(len(u.data)), func(bool) {}).ToByteSlice(1 << 20)
		if err != nil || !bytes.Equal(got, u.data) {
			fail("a completed upload does not read back from its block", fmt.Sprintf("upload %d at %d: %x, %v; want %x", i, off, got, err, u.data))
		}
	}
	res.lines = append(res.lines, fmt.Sprintf("sw-dev %d", top))
	res.impl = append(res.impl, image())
	return
}

func swGen(r *hx.Rand) []string {
	S := r.PickInt(1, 2, 3, 4, 4, 5, 7, 8, 16)
	sectors := r.Range(4, 12)
	resume := -1
	if r.Chance(1, 5) {
		resume = r.Intn(S*sectors/2 + 1)
	}
	script := []string{fmt.Sprintf("#sw %d %d %d", S, sectors, resume)}
	type st struct{ size, left int }
	var ups []st
	steps := r.Range(6, 40)
	pickSize := func() int {
		switch r.Intn(8) {
		case 0:
			return 0
		case 1:
			return 1
		case 2:
			return S - 1
		case 3:
			return S
		case 4:
			return S + 1
		case 5:
			return 2*S + r.Intn(S)
		default:
			return r.Intn(3*S + 2)
		}
	}
	for k := 0; k < steps; k++ {
		active := []int{}
		for i, u := range ups {
			if u.left >= 0 {
				active = append(active, i)
			}
		}
		if len(active) == 0 || (len(ups) < 8 && r.Chance(1, 3)) {
			n := pickSize()
			line := "obj " + hx.Hex(r.Bytes(n))
			if r.Chance(1, 12) {
				line += " bad"
			}
			script = append(script, line)
			ups = append(ups, st{n, n})
			continue
		}
		i := active[r.Intn(len(active))]
		u := &ups[i]
		switch {
		case u.left == 0 || r.Chance(1, 25):
			script = append(script, fmt.Sprintf("eof %d", i))
			u.left = -1
		case r.Chance(1, 20):
			script = append(script, fmt.Sprintf("fail %d", i))
			u.left = -1
		case r.Chance(1, 15) && u.left > 1:
			n := r.PickInt(1, S, S+1, 2*S+1, u.left-1)
			if n > u.left-1 {
				n = u.left - 1
			}
			script = append(script, fmt.Sprintf("failw %d %d %d", i, n, r.Intn(3)))
			// the upload may or may not survive: afterwards the generator treats it as gone
			u.left = -1
		default:
			n := r.PickInt(1, 1, S-1, S, S+1, 2*S+1, u.left, u.left, 1+r.Intn(u.left))
			if n <= 0 {
				n = 1
			}
			if n > u.left {
				n = u.left
			}
			script = append(script, fmt.Sprintf("chunk %d %d", i, n))
			u.left -= n
		}
	}
	for i, u := range ups {
		if u.left >= 0 && r.Chance(4, 5) {
			if u.left > 0 {
				script = append(script, fmt.Sprintf("chunk %d %d", i, u.left))
			}
			script = append(script, fmt.Sprintf("eof %d", i))
		}
	}
	return script
}

// swEval runs one script against implementation and model and returns the finding, if any.
func swEval(model *hx.Model, name string, script []string) (swResult, *hx.Finding, int) {
	res := swRun(script)
	if res.what != "" {
		return res, &hx.Finding{Kind: "oracle", What: res.what, Detail: res.detail, Case: name, Script: script, Impl: res.impl}, 0
	}
	if model == nil {
		return res, nil, 0
	}
	mo := model.Batch(res.lines)
	for j := range mo {
		if j < len(res.impl) && mo[j] != res.impl[j] {
			return res, &hx.Finding{Kind: "disagreement", What: "model/implementation differ",
				Detail: fmt.Sprintf("sector writer step %d %q: impl=%q model=%q", j, res.lines[j], res.impl[j], mo[j]),
				Case:   name, Script: script, Impl: res.impl, Model: mo}, len(mo)
		}
	}
	return res, nil, len(mo)
}

func sectorCase(run *hx.Run, model *hx.Model, name string, script []string) {
	res, f, n := swEval(model, name, script)
	if f != nil {
		small := hx.Shrink(script, 1, func(sc []string) bool { _, g, _ := swEval(model, name, sc); return g != nil })
		if _, g, _ := swEval(model, name, small); g != nil {
			f = g
		}
		run.Report(*f)
	}
	run.Compared(n)
	run.Case(script, res.shared > 0, model != nil)
	run.CountN("sector:flushed-uploads", res.flushed)
	run.CountN("sector:flushed-sharing-a-sector", res.shared)
	run.CountN("sector:device-write-failed-upload-abandoned", res.failDead)
	run.CountN("sector:device-write-fault-armed-but-no-write", res.failAlive)
}

func sectorCases(run *hx.Run, model *hx.Model, n int) {
	for i := 0; i < n && run.Findings() < 20; i++ {
		r := hx.NewRand(run.Seed, "C01sector", i)
		sectorCase(run, model, fmt.Sprintf("sector/seed%d/case%d", run.Seed, i), swGen(r))
	}
}
