package c01

import (
	"bytes"
	"io"
	"sync"
	"testing"

	"github.com/buildbarn/bb-storage/pkg/blobstore"
	"github.com/buildbarn/bb-storage/pkg/blobstore/buffer"
	"github.com/buildbarn/bb-storage/pkg/blobstore/local"

	"verifharness/hx"
)

// TestC01Race supports assumption A1 of the sector writer model (one Write call or flush per atomic step, because
// everything shared is touched under the sector's mutex): many uploads into one block, packed so that neighbours share
// sectors, run truly in parallel, each delivering its data in tiny chunks. It is meant to run under the race detector
// (`go test -race`); it also checks the device image afterwards. It is a stress test, not a proof: it can only support
// the assumption the theorem C01Sector.sector_image rests on.
func TestC01Race(t *testing.T) {
	for round := 0; round < 40; round++ {
		r := hx.NewRand(uint64(round), "C01race", round)
		S := r.PickInt(2, 3, 4, 8)
		n := r.Range(4, 12)
		var datas [][]byte
		total := 0
		for i := 0; i < n; i++ {
			d := r.Bytes(r.PickInt(1, S-1, S, S+1, 2*S+1, 1+r.Intn(3*S)))
			datas = append(datas, d)
			total += len(d)
		}
		sectors := (total + S - 1) / S
		dev := hx.NewMemDevice(S * sectors)
		alloc := local.NewBlockDeviceBackedBlockAllocator(dev, blobstore.CASReadBufferFactory, S, int64(sectors), 1, "swrace")
		block, _, err := alloc.NewBlock()
		if err != nil {
			t.Fatal(err)
		}
		// Put is called under the store lock in the real code: sequentially here; the writers run in parallel
		writers := make([]local.BlockPutWriter, n)
		for i, d := range datas {
			writers[i] = block.Put(int64(len(d)))
		}
		offsets := make([]int64, n)
		var wg sync.WaitGroup
		for i := range datas {
			wg.Add(1)
			go func(i int) {
				defer wg.Done()
				d := datas[i]
				var chunks [][]byte
				for p := 0; p < len(d); {
					k := 1 + (p+i)%3
					if p+k > len(d) {
						k = len(d) - p
					}
					chunks = append(chunks, d[p:p+k])
					p += k
				}
				fin := writers[i](buffer.NewCASBufferFromChunkReader(swDigest(d), &sliceChunkReader{chunks: chunks}, buffer.UserProvided))
				off, err := fin()
				if err != nil {
					t.Errorf("round %d upload %d: %v", round, i, err)
				}
				offsets[i] = off
			}(i)
		}
		wg.Wait()
		pos := 0
		for i, d := range datas {
			if int(offsets[i]) != pos {
				t.Errorf("round %d upload %d: offset %d, expected %d", round, i, offsets[i], pos)
			}
			if !bytes.Equal(dev.Data[pos:pos+len(d)], d) {
				t.Errorf("round %d upload %d at %d: device holds %x, uploaded %x (sector %d)", round, i, pos, dev.Data[pos:pos+len(d)], d, S)
			}
			pos += len(d)
		}
	}
}

type sliceChunkReader struct{ chunks [][]byte }

func (r *sliceChunkReader) Read() ([]byte, error) {
	if len(r.chunks) == 0 {
		return nil, io.EOF
	}
	c := r.chunks[0]
	r.chunks = r.chunks[1:]
	return c, nil
}
func (r *sliceChunkReader) Close() {}
