package c01

import (
	"strings"
	"testing"

	"verifharness/hx"
	"verifharness/stx"
)

func TestC01(t *testing.T) {
	run := hx.NewRun("C01")
	defer run.Finish(t)
	model, err := hx.StartModel()
	if err != nil {
		t.Fatalf("start model: %v", err)
	}
	defer model.Close()
	run.HasModel = model != nil
	run.SetRule("random schedules of Put (source delivered chunk by chunk, other operations interleaved between chunks; short/long/bad-hash/failing sources), " +
		"Get, FindMissing and GetFromComposite (other operations interleaved while the slicer runs) on real local stores assembled like new_blob_access.go: " +
		"flat (both key formats), hierarchical CAS and AC flavour x in-memory/block-device allocator x in-memory/block-device index; old/current/new/spare tiny, " +
		"sectors 1..16 bytes, sizes biased to 0,1,sector+-1,block,block+1; non-trivial = at least one block rotation; distinct by script hash")
	// device level: the sector-sharing block writer (BB.SectorWriter)
	if name, script := run.ReplayScript(); script != nil && strings.HasPrefix(script[0], "#sw") {
		sectorCase(run, model, name, script)
		return
	}
	if run.Replay == "" {
		for name, script := range run.CorpusScripts() {
			if strings.HasPrefix(script[0], "#sw") {
				sectorCase(run, model, "corpus/"+name, script)
			}
		}
		sectorCases(run, model, run.Scale(1500, 30000))
	}
	stx.Main(run, model, "C01", []string{"C01"}, []string{"flat", "flati", "hier", "hier", "ac"}, 4000, 40000)
}
