package c15

import (
	"fmt"
	"strings"

	"verifharness/hx"
)

func (e *env) prepareMux(name string, script []string) *queued {
	c, err := parseMux(script)
	if err != nil {
		return nil
	}
	o := c.exec(e.t)
	q := &queued{name: name, script: script, oracle: o.oracle, detail: o.detail}
	nontrivial := o.steps >= 4 && len(c.chunks)+c.term > 0
	e.run.Case(script, nontrivial, e.model != nil && o.muxLine != "")
	e.run.Count(fmt.Sprintf("mux:handles=%d", strings.Count(o.negLine, "cl")+1))
	e.run.CountN("mux:source-rounds-gated", o.rounds)
	if o.muxLine == "" || o.stuck {
		return q
	}
	n := strings.Count(o.negLine, "cl") + 1
	q.lines = []string{o.muxLine, o.negLine}
	q.judge = func(r []string) (bool, string, []string, []string) {
		impl := []string{o.line, "neg-observed"}
		model := []string{canonMux(r[0]), r[1]}
		if model[0] != o.line {
			return false, fmt.Sprintf("%q: impl=%q model=%q", o.muxLine, o.line, model[0]), impl, model
		}
		if ok, d := c.negAgree(o, n, r[1]); !ok {
			return false, fmt.Sprintf("%q: negotiation differs: %s", o.negLine, d), impl, model
		}
		return true, "", impl, model
	}
	return q
}

// muxSim mirrors which calls a consumer may make (idle / waiting / closed), so
// that generated schedules consist of calls that are possible.
type muxSim struct{ st []int } // 0 idle, 1 waiting, 2 closed

func (m *muxSim) othersWaiting(i int) bool {
	for j, s := range m.st {
		if j != i && s == 0 {
			return false
		}
	}
	return true
}

func (m *muxSim) can(i int) bool { return m.st[i] == 0 }

func (m *muxSim) apply(i int, op string) {
	last := m.othersWaiting(i)
	if op == "close" {
		m.st[i] = 2
	} else if !last {
		m.st[i] = 1
	}
	if last {
		for j, s := range m.st {
			if s == 1 {
				m.st[j] = 0
			}
		}
	}
}

type srcSpec struct {
	content []byte
	chunks  [][]byte
	term    int
}

func (s srcSpec) lines(gated bool) []string {
	g := 0
	if gated {
		g = 1
	}
	term := "eof"
	if s.term != 0 {
		term = fmt.Sprintf("e%d", s.term)
	}
	var hs []string
	for _, c := range s.chunks {
		hs = append(hs, hexOr(c))
	}
	return []string{fmt.Sprintf("#cfg mux gated=%d content=%s", g, hexOr(s.content)),
		strings.TrimSpace("src " + term + " " + strings.Join(hs, " "))}
}

func genSrc(r *hx.Rand) srcSpec {
	n := r.PickInt(0, 2, 3, 4, 5, 6, 8, 12)
	content := validContent(n, r.Intn(100))
	raw := append([]byte{}, content...)
	s := srcSpec{content: content}
	switch r.Intn(8) {
	case 0: // wrong hash
		if len(raw) > 0 {
			raw[r.Intn(len(raw))] ^= 1
		} else {
			raw = []byte{8, 1}
		}
	case 1: // too short / too long
		if len(raw) > 0 && r.Chance(1, 2) {
			raw = raw[:len(raw)-1]
		} else {
			raw = append(raw, 8, 2)
		}
	case 2, 3: // I/O error part way
		s.term = r.PickInt(14, 5, 13)
		raw = raw[:r.Intn(len(raw)+1)]
	}
	var sizes []int
	for k := r.Intn(4); k > 0; k-- {
		sizes = append(sizes, r.Intn(len(raw)+2))
	}
	s.chunks = splitChunks(raw, sizes)
	if r.Chance(1, 6) {
		s.chunks = append(s.chunks, nil)
	}
	return s
}

func genMux(r *hx.Rand) []string {
	s := genSrc(r)
	script := s.lines(r.Chance(1, 2))
	n := r.Range(2, 4)
	discard := map[int]bool{}
	script = append(script, "clone 0")
	handles := 2
	fresh := []int{0, 1}
	for len(fresh) > 0 {
		if handles < n && r.Chance(1, 2) {
			script = append(script, fmt.Sprintf("clone %d", fresh[r.Intn(len(fresh))]))
			fresh = append(fresh, handles)
			handles++
			continue
		}
		k := r.Intn(len(fresh))
		i := fresh[k]
		fresh = append(fresh[:k], fresh[k+1:]...)
		if r.Chance(1, 5) {
			discard[i] = true
			script = append(script, fmt.Sprintf("discard %d", i))
		} else {
			script = append(script, fmt.Sprintf("arrive %d %d", i, r.PickInt(1, 2, 3, 5, 7, 65536)))
		}
	}
	sim := &muxSim{st: make([]int, handles)}
	for i := range sim.st {
		if discard[i] {
			sim.st[i] = 2
		}
	}
	budget := r.Range(0, 5*handles+4)
	for k := 0; k < budget; k++ {
		var cand []int
		for i := range sim.st {
			if sim.can(i) {
				cand = append(cand, i)
			}
		}
		if len(cand) == 0 {
			break
		}
		i := cand[r.Intn(len(cand))]
		op := "read"
		if r.Chance(1, 5) {
			op = "close"
		}
		script = append(script, fmt.Sprintf("%s %d", op, i))
		sim.apply(i, op)
	}
	return script
}

// exhaustiveMux enumerates every possible schedule of at most maxLen calls by
// n reading consumers over a fixed source.
func exhaustiveMux(e *env, n, maxLen int, s srcSpec, gated bool) int {
	head := s.lines(gated)
	for i := 0; i+1 < n; i++ {
		head = append(head, fmt.Sprintf("clone %d", i))
	}
	for i := 0; i < n; i++ {
		head = append(head, fmt.Sprintf("arrive %d %d", i, 2+i))
	}
	count := 0
	var rec func(sim *muxSim, ops []string)
	rec = func(sim *muxSim, ops []string) {
		if e.stop() {
			return
		}
		count++
		e.handle(fmt.Sprintf("exhaustive/n%d/%s", n, strings.Join(ops, ",")), append(append([]string{}, head...), ops...))
		if len(ops) == maxLen {
			return
		}
		for i := 0; i < n; i++ {
			if !sim.can(i) {
				continue
			}
			for _, op := range []string{"read", "close"} {
				next := &muxSim{st: append([]int{}, sim.st...)}
				next.apply(i, op)
				rec(next, append(append([]string{}, ops...), fmt.Sprintf("%s %d", op, i)))
			}
		}
	}
	rec(&muxSim{st: make([]int, n)}, nil)
	return count
}
