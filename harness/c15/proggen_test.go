package c15

import (
	"fmt"
	"strings"

	"verifharness/hx"
)

var (
	baseToks = []string{"b.err14", "b.bytes", "b.rat", "b.rd.g", "b.rd.c", "b.rd.e14", "b.ch.g", "b.ch.c", "b.ch.e5"}
	opToks   = []string{"cs.l.d", "cs.r.d", "cs.l.r", "cs.r.r", "cc.l", "cc.r", "wt.0", "wt.10", "eh", "rp.l.r.0", "rp.r.d.10"}
	// further variants of the replication pattern, used by the random programs only
	moreOps = []string{"rp.r.r.10", "rp.l.d.0"}
)

func methodsFor(n int) [][]string {
	small := n - 1
	if small < 0 {
		small = 0
	}
	off := 1
	if n == 0 {
		off = 0
	}
	l := n
	if l == 0 {
		l = 1
	}
	return [][]string{{"size"}, {"iw"}, {"ra", "0", fmt.Sprint(l)}, {"ra", fmt.Sprint(off), fmt.Sprint(l)},
		{"proto", fmt.Sprint(bigMax)}, {"bs", fmt.Sprint(bigMax)}, {"bs", fmt.Sprint(small)},
		{"cr", "0", "all"}, {"cr", fmt.Sprint(off), "all"}, {"cr", "0", "close"}, {"cr", "0", "one"}, {"rdr", "all"}, {"rdr", "close"}, {"discard"},
		{"iwf", "0"}, {"iwf", "1"}, {"iwf", "2"}}
}

func progScript(cfg string, toks []string, method []string) []string {
	s := []string{"#cfg prog " + cfg}
	for _, t := range toks {
		s = append(s, "e "+t)
	}
	m := "m"
	for _, w := range method {
		m += " " + w
	}
	return append(s, m)
}

func countTasks(toks []string) int {
	n := 0
	for _, t := range toks {
		if len(t) > 3 && (t[:3] == "wt." || t[:3] == "rp." || t[:3] == "rs.") {
			n++
		}
	}
	return n
}

// programs enumerates every BufExpr up to the tier's depth with every method,
// each once per choice of the task that is released last.
func (e *env) programs() {
	depth := e.run.Scale(3, 4)
	if v := progDepthOverride(); v > 0 {
		depth = v
	}
	content := []byte{8, 1, 8, 2}
	methods := methodsFor(len(content))
	total := 0
	var rec func(toks []string)
	rec = func(toks []string) {
		if e.stop() {
			return
		}
		nt := countTasks(toks)
		for mi, m := range methods {
			for relast := -1; relast < nt; relast++ {
				if relast == -1 && nt >= 2 {
					continue // ascending order = releasing the last task last
				}
				if relast == nt-1 && nt == 1 {
					continue
				}
				cfg := fmt.Sprintf("content=%s corrupt=%d bytes=%d relast=%d chunk=%d split=%d", hexOr(content),
					(total+mi)%3, (total/3+mi)%3, relast, 1+(total+mi)%5, (total+mi)%4)
				e.handle(fmt.Sprintf("exhaustive/prog%d", total), progScript(cfg, toks, m))
				total++
			}
		}
		if len(toks)-1 == depth {
			return
		}
		for _, op := range opToks {
			rec(append(append([]string{}, toks...), op))
		}
	}
	for _, b := range baseToks {
		rec([]string{b})
	}
	// the real localBlobReplicator under live and cancelled contexts; programs that abandon a handle
	extra := 0
	emit := func(toks []string) {
		for mi, m := range methods {
			cfg := fmt.Sprintf("content=%s corrupt=%d bytes=%d relast=-1 chunk=%d split=%d", hexOr(content), (extra+mi)%3, (extra+mi)%3, 1+(extra+mi)%5, (extra+mi)%4)
			e.handle(fmt.Sprintf("exhaustive/special%d", extra), progScript(cfg, toks, m))
			extra++
		}
	}
	for _, b := range baseToks {
		for _, pre := range append([]string{""}, opToks...) {
			for _, rs := range []string{"rs.live", "rs.cancel"} {
				for _, post := range []string{"", "eh", "wt.0", "cs.l.r"} {
					toks := []string{b}
					for _, t := range []string{pre, rs, post} {
						if t != "" {
							toks = append(toks, t)
						}
					}
					if !e.stop() {
						emit(toks)
					}
				}
			}
		}
	}
	for _, b := range []string{"b.rd.g", "b.rd.c", "b.rd.e14", "b.ch.g", "b.ch.c", "b.ch.e5"} {
		for _, pre := range []string{"", "eh", "wt.0", "cs.l.d", "cc.l"} {
			for _, ab := range []string{"rp.l.a.0", "rp.r.a.10", "cs.l.a"} {
				for _, post := range []string{"", "eh", "wt.0"} {
					toks := []string{b}
					for _, t := range []string{pre, ab, post} {
						if t != "" {
							toks = append(toks, t)
						}
					}
					if !e.stop() {
						emit(toks)
					}
				}
			}
		}
	}
	e.run.Extra("replicator_and_abandon_cases", extra)
	e.run.Extra("programs_depth", depth)
	e.run.Extra("program_cases", total)
	// random programs: deeper, other blob sizes
	nr := e.run.Scale(3000, 40000)
	for i := 0; i < nr && !e.stop(); i++ {
		r := hx.NewRand(e.run.Seed, "C15/prog", i)
		n := r.PickInt(0, 2, 3, 4, 5, 7, 8)
		content := validContent(n, r.Intn(100))
		toks := []string{baseToks[r.Intn(len(baseToks))]}
		if n == 0 && strings.HasSuffix(toks[0], ".c") {
			toks[0] = "b.ch.g"
		}
		for k := r.Range(1, 6); k > 0; k-- {
			if r.Chance(1, 8) {
				toks = append(toks, moreOps[r.Intn(len(moreOps))])
			} else {
				toks = append(toks, opToks[r.Intn(len(opToks))])
			}
		}
		ms := methodsFor(n)
		nt := countTasks(toks)
		cfg := fmt.Sprintf("content=%s corrupt=%d bytes=%d relast=%d chunk=%d split=%d", hexOr(content),
			r.Intn(3), r.Intn(3), r.Range(-1, nt-1), r.Range(1, n+2), r.Intn(n+2))
		e.handle(fmt.Sprintf("seed%d/prog%d", e.run.Seed, i), progScript(cfg, toks, ms[r.Intn(len(ms))]))
	}
}
