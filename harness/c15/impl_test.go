package c15

// Collaborators of the real code: scripted, recording sources; digests;
// canonical rendering of results.

import (
	"bytes"
	"crypto/sha256"
	"encoding/hex"
	"fmt"
	"io"
	"strings"
	"sync/atomic"

	remoteexecution "github.com/bazelbuild/remote-apis/build/bazel/remote/execution/v2"
	"github.com/buildbarn/bb-storage/pkg/blobstore/buffer"
	"github.com/buildbarn/bb-storage/pkg/digest"
	"google.golang.org/grpc/codes"
	"google.golang.org/grpc/status"
)

func codeErr(k int) error { return status.Error(codes.Code(k), fmt.Sprintf("scripted error %d", k)) }

func errCode(err error) int { return int(status.Code(err)) }

func digestOf(content []byte) digest.Digest {
	h := sha256.Sum256(content)
	return digest.MustNewDigest("c15", remoteexecution.DigestFunction_SHA256, hex.EncodeToString(h[:]), int64(len(content)))
}

// rawSrc is a scripted source usable as ChunkReader, io.ReadCloser and
// ReadAtCloser. term == 0: io.EOF after the chunks, else a status error.
type rawSrc struct {
	chunks [][]byte
	term   int
	pos    int
	cur    []byte // rest of the current chunk (reader form)
	all    []byte // reader-at form

	reads  atomic.Int32
	closes atomic.Int32
	// gate != nil: every Read of the chunk form blocks until the harness sends on gate
	gate    chan struct{}
	waiting atomic.Bool
}

func (s *rawSrc) termErr() error {
	if s.term == 0 {
		return io.EOF
	}
	return codeErr(s.term)
}

// Read of the ChunkReader form.
func (s *rawSrc) Read() ([]byte, error) {
	s.reads.Add(1)
	if s.gate != nil {
		s.waiting.Store(true)
		<-s.gate
		s.waiting.Store(false)
	}
	if s.pos < len(s.chunks) {
		c := s.chunks[s.pos]
		s.pos++
		return c, nil
	}
	return nil, s.termErr()
}

func (s *rawSrc) Close() { s.closes.Add(1) }

// rawReader adapts the script to io.ReadCloser: one chunk at most per Read.
type rawReader struct{ s *rawSrc }

func (r rawReader) Read(p []byte) (int, error) {
	s := r.s
	s.reads.Add(1)
	if len(s.cur) == 0 {
		if s.pos >= len(s.chunks) {
			return 0, s.termErr()
		}
		s.cur = s.chunks[s.pos]
		s.pos++
	}
	n := copy(p, s.cur)
	s.cur = s.cur[n:]
	return n, nil
}

func (r rawReader) Close() error { r.s.closes.Add(1); return nil }

type rawReaderAt struct{ s *rawSrc }

func (r rawReaderAt) ReadAt(p []byte, off int64) (int, error) {
	r.s.reads.Add(1)
	return bytes.NewReader(r.s.all).ReadAt(p, off)
}

func (r rawReaderAt) Close() error { r.s.closes.Add(1); return nil }

// validContent builds n bytes that are a well-formed protobuf wire encoding
// (unknown fields of any message): two-byte varint fields and, for odd
// lengths, one three-byte length-delimited field. n == 1 has no encoding;
// callers avoid it.
func validContent(n int, salt int) []byte {
	var b []byte
	if n%2 == 1 && n >= 3 {
		b = append(b, 0x12, 0x01, byte(0x30+salt%64))
		n -= 3
	}
	for i := 0; n >= 2; i++ {
		b = append(b, 0x08, byte((salt+i*7)%128))
		n -= 2
	}
	return b
}

func splitChunks(b []byte, sizes []int) [][]byte {
	var out [][]byte
	for _, n := range sizes {
		if n > len(b) {
			n = len(b)
		}
		out = append(out, b[:n])
		b = b[n:]
	}
	if len(b) > 0 {
		out = append(out, b)
	}
	return out
}

func hexOr(b []byte) string {
	if len(b) == 0 {
		return "-"
	}
	return hex.EncodeToString(b)
}

func parseHex(s string) ([]byte, error) {
	if s == "-" {
		return nil, nil
	}
	return hex.DecodeString(s)
}

// resString renders one ChunkReader.Read result like the model driver does.
func resString(d []byte, err error) string {
	if err == nil {
		return "c" + hexOr(d)
	}
	if err == io.EOF {
		return "eof"
	}
	return fmt.Sprintf("e%d", errCode(err))
}

func backend(calls *atomic.Int32, bad *atomic.Int32) buffer.Source {
	return buffer.BackendProvided(func(valid bool) {
		calls.Add(1)
		if !valid {
			bad.Add(1)
		}
	})
}

func idsString(ids []int) string {
	if len(ids) == 0 {
		return "-"
	}
	var ss []string
	for _, i := range ids {
		ss = append(ss, fmt.Sprint(i))
	}
	return strings.Join(ss, ",")
}

func buffer_chunks(src *rawSrc, content []byte) buffer.Buffer {
	var a, b atomic.Int32
	return buffer.NewCASBufferFromChunkReader(digestOf(content), src, backend(&a, &b))
}
