package c15

import (
	"fmt"
	"strings"

	"github.com/buildbarn/bb-storage/pkg/blobstore/buffer"

	"verifharness/hx"
)

const (
	whatD1         = "a clone of a buffer with a background task panics or loses its digest"
	whatProgPanic  = "a Buffer method panics"
	whatProgSize   = "GetSizeBytes differs from the digest's size"
	whatProgStuck  = "a call on a cloned or task-decorated buffer blocks forever"
	whatProgCloses = "the underlying source of a buffer is not closed exactly once"
	whatRatLeak    = "a failing foreground task on a reader-at buffer leaks the underlying reader"
	whatTaskEarly  = "a call returned before the background task of its buffer completed"
	whatTaskErr    = "a background task's error was dropped although the data was fine"
	whatProgData   = "a buffer delivered bytes that differ from the blob"
	whatAbandon    = "a task returned without consuming or discarding its buffer"
	whatPeer       = "the owner of another handle of a stream clone failed although the blob and all tasks were fine"
	whatProgChunk  = "a chunk reader delivered a chunk larger than asked for"
)

// taskUnderClone: some CloneStream/CloneCopy is applied to a value that carries a WithTask.
func (c *progCase) taskUnderClone() bool {
	seenTask := false
	for _, t := range c.toks {
		if seenTask && (strings.HasPrefix(t, "cs.") || strings.HasPrefix(t, "cc.") || strings.HasPrefix(t, "rp.") || strings.HasPrefix(t, "rs.")) {
			return true
		}
		if strings.HasPrefix(t, "wt.") || strings.HasPrefix(t, "rp.") || strings.HasPrefix(t, "rs.") {
			seenTask = true
		}
	}
	return false
}

// peersShouldSucceed: the source delivers the blob and no task fails, so whatever the main
// consumer does, everybody else reading the blob must get it.
func (c *progCase) peersShouldSucceed() bool {
	if b := c.toks[0]; b != "b.bytes" && b != "b.rat" && !strings.HasSuffix(b, ".g") {
		return false
	}
	for _, t := range c.toks[1:] {
		if (strings.HasPrefix(t, "wt.") || strings.HasPrefix(t, "rp.")) && !strings.HasSuffix(t, ".0") || c.abandons() {
			return false
		}
	}
	return true
}

// abandons: the program itself leaves a handle of a clone unconsumed (sib = a)
func (c *progCase) abandons() bool {
	for _, t := range c.toks {
		if (strings.HasPrefix(t, "cs.") || strings.HasPrefix(t, "rp.")) && strings.Contains(t, ".a") {
			return true
		}
	}
	return false
}

func (c *progCase) realReplicator() bool {
	for _, t := range c.toks {
		if strings.HasPrefix(t, "rs.") {
			return true
		}
	}
	return false
}

// syncTaskFailed: a task that ran in the foreground (inside WithTask) returned an error.
func (c *progCase) syncTaskFailed(p *progRun) bool {
	for _, t := range p.tasks {
		if t.ranSync && t.err != 0 {
			return true
		}
	}
	return false
}

func (c *progCase) readsAll() bool {
	m := c.method
	switch m[0] {
	case "iw", "proto", "bs", "ra", "iwf":
		return true
	case "cr", "rdr":
		return m[len(m)-1] == "all"
	}
	return false
}

// topChain: ids of the tasks attached through WithTask/WithErrorHandler nodes at the top of the expression.
func (c *progCase) topChain(p *progRun) []int {
	id := len(p.tasks)
	var out []int
	for i := len(c.toks) - 1; i >= 1; i-- {
		t := c.toks[i]
		if strings.HasPrefix(t, "wt.") || strings.HasPrefix(t, "rp.") || strings.HasPrefix(t, "rs.") {
			id--
			if id >= 0 && !p.tasks[id].ranSync {
				out = append(out, id)
			}
			if !strings.HasPrefix(t, "wt.") {
				break // underneath is a stream clone
			}
			continue
		}
		if t != "eh" {
			break
		}
	}
	return out
}

func (c *progCase) expected(p *progRun) []byte {
	m := c.method
	atoi := func(s string) int { var v int; fmt.Sscan(s, &v); return v }
	switch m[0] {
	case "ra":
		off, l := atoi(m[1]), atoi(m[2])
		if off > len(c.content) {
			off = len(c.content)
		}
		d := c.content[off:]
		if len(d) > l {
			d = d[:l]
		}
		return d
	case "cr":
		off := atoi(m[1])
		if off > len(c.content) {
			off = len(c.content)
		}
		return c.content[off:]
	}
	return c.content
}

// oracle states C15 on what was observed, without the model.
func (c *progCase) oracle(p *progRun) (whats []string, detail string) {
	add := func(w, d string) {
		for _, x := range whats {
			if x == w {
				return
			}
		}
		whats = append(whats, w)
		if detail == "" {
			detail = d
		}
	}
	panicWhat := whatProgPanic
	if c.taskUnderClone() {
		panicWhat = whatD1
	}
	for _, m := range []string{p.buildPanic, p.methodPanic, p.cleanPanic} {
		if m != "" {
			add(panicWhat, "panic: "+m)
		}
	}
	for i, s := range p.sibs {
		if v := s.panicV.Load(); v != nil {
			add(panicWhat, fmt.Sprintf("goroutine owning clone %d: panic: %v", i, v))
		}
	}
	panicked := len(whats) > 0
	if p.sizeOK && p.sizeVal != int64(len(c.content)) {
		w := whatProgSize
		if c.taskUnderClone() {
			w = whatD1
		}
		add(w, fmt.Sprintf("GetSizeBytes = %d, digest says %d", p.sizeVal, len(c.content)))
	}
	if panicked {
		return whats, detail // what follows a panic (leaked handles) is a consequence
	}
	if c.abandons() {
		return whats, detail // the program breaks the contract of CloneStream itself; the model says what happens
	}
	if p.stuck || !p.mainDone.Load() {
		for _, sk := range p.sinks {
			if sk.puts.Load() == 0 {
				add(whatAbandon, "ReplicateSingle's task ended without handing its clone to sink.Put or discarding it; the consumer of the returned buffer blocks for ever")
			}
		}
		add(whatProgStuck, "the bubble ended with blocked goroutines, all tasks released")
		return whats, detail
	}
	for _, sk := range p.sinks {
		if sk.puts.Load() == 0 {
			add(whatAbandon, "ReplicateSingle's task ended without handing its clone to sink.Put or discarding it")
			return whats, detail
		}
	}
	for i, s := range p.sibs {
		if !s.done.Load() {
			add(whatProgStuck, fmt.Sprintf("goroutine owning clone %d never returned", i))
		}
		if s.policy == "r" && s.err == nil && s.done.Load() && string(s.data) != string(c.content) {
			add(whatProgData, fmt.Sprintf("clone %d read %x, blob is %x", i, s.data, c.content))
		}
	}
	if p.hasSrc && p.src.closes.Load() != 1 {
		w := whatProgCloses
		if c.toks[0] == "b.rat" && p.src.closes.Load() == 0 && c.syncTaskFailed(p) {
			w = whatRatLeak
		}
		add(w, fmt.Sprintf("Close was called %d times", p.src.closes.Load()))
	}
	// (a corrupt source's bytes are handed out except for the final portion: C09's subject)
	if !strings.HasSuffix(c.toks[0], ".c") && (len(p.written) > len(c.content) || string(p.written) != string(c.content[:len(p.written)])) {
		add(whatProgData, fmt.Sprintf("%v wrote %x, blob is %x", c.method, p.written, c.content))
	}
	if c.peersShouldSucceed() {
		for i, s := range p.sibs {
			if s.policy == "r" && s.done.Load() && s.err != nil {
				add(whatPeer, fmt.Sprintf("clone %d: ToByteSlice failed with %v although blob and tasks are fine", i, s.err))
			}
		}
	}
	if p.dataOK && string(p.data) != string(c.expected(p)) {
		add(whatProgData, fmt.Sprintf("%v returned %x, expected %x", c.method, p.data, c.expected(p)))
	}
	if p.maxChunk > c.chunk {
		add(whatProgChunk, fmt.Sprintf("chunk of %d bytes, asked for at most %d", p.maxChunk, c.chunk))
	}
	success := c.readsAll() && strings.HasPrefix(p.res, "ok:") && !p.eof && p.cerr == "-"
	if success {
		for _, t := range p.tasks {
			if !p.atReturn[t.id] {
				add(whatTaskEarly, fmt.Sprintf("%v succeeded, task %d had not completed", c.method, t.id))
			}
			if t.err != 0 {
				add(whatTaskErr, fmt.Sprintf("%v succeeded, task %d failed with code %d", c.method, t.id, t.err))
			}
		}
	}
	if c.method[0] != "size" {
		for _, id := range c.topChain(p) {
			if !p.atReturn[id] {
				add(whatTaskEarly, fmt.Sprintf("%v returned, task %d of the buffer had not completed", c.method, id))
			}
			if c.method[0] == "cr" && p.termEOF && !p.atTerm[id] {
				add(whatTaskEarly, fmt.Sprintf("end of stream reported, task %d of the buffer had not completed", id))
			}
		}
	}
	return whats, detail
}

var _ = hx.Hex

func (c *progCase) modelLine(legacy, ratLegacy bool) string {
	rep, rat := 1, 1
	if legacy {
		rep = 0
	}
	if ratLegacy {
		rat = 0
	}
	var toks []string
	for _, t := range c.toks {
		if strings.HasPrefix(t, "rs.") {
			t = "rp.l.r.0" // ReplicateSingle is the replication pattern with a sink that reads everything
		}
		toks = append(toks, t)
	}
	return fmt.Sprintf("prog %d %d %s ; %s ; %s", rep, rat, hexOr(c.content), strings.Join(toks, " "), strings.Join(c.method, " "))
}

func (p *progRun) implLine() string {
	switch {
	case p.buildPanic != "":
		return "buildpanic"
	case p.methodPanic != "":
		return "res=panic"
	case p.stuck || !p.mainDone.Load():
		return "stuck"
	}
	eof := 0
	if p.eof {
		eof = 1
	}
	return fmt.Sprintf("res=%s eof=%d cerr=%s", p.res, eof, p.cerr)
}

func parseIDs(s string) []int {
	var out []int
	if s == "-" {
		return out
	}
	for _, w := range strings.Split(s, ",") {
		var v int
		fmt.Sscan(w, &v)
		out = append(out, v)
	}
	return out
}

func (e *env) prepareProg(name string, script []string) *queued {
	c, err := parseProg(script)
	if err != nil {
		return nil
	}
	p, err := c.exec(e.t)
	if err != nil {
		return nil
	}
	q := &queued{name: name, script: script}
	q.oracle, q.detail = c.oracle(p)
	e.run.Case(script, len(c.toks) >= 2, e.model != nil)
	e.run.Count("prog:depth=" + fmt.Sprint(len(c.toks)-1))
	e.run.Count("prog:method=" + c.method[0])
	e.run.Count("prog:result=" + strings.SplitN(strings.TrimPrefix(p.implLine(), "res="), ":", 2)[0])
	e.run.CountN("prog:tasks-gated", len(p.tasks))
	impl := p.implLine()
	q.lines = []string{c.modelLine(e.legacy, e.ratLegacy)}
	closes := "-"
	if p.hasSrc {
		closes = fmt.Sprint(p.src.closes.Load())
	}
	impl += " closes=" + closes
	q.judge = func(r []string) (bool, string, []string, []string) {
		il, ml := []string{impl}, []string{r[0]}
		bad := func(d string) (bool, string, []string, []string) {
			return false, fmt.Sprintf("%q: impl=%q model=%q %s", q.lines[0], impl, r[0], d), il, ml
		}
		f := strings.Fields(r[0])
		if r[0] == "blocked" {
			if strings.HasPrefix(impl, "stuck") {
				return true, "", il, ml
			}
			return bad("the program abandons a handle of a stream clone and yet the call returned")
		}
		if r[0] == "buildpanic" || (len(f) > 0 && f[0] == "res=panic") {
			// after a panic handles leak: the call of another goroutine may be the one that panics
			if strings.HasPrefix(impl, "buildpanic") || strings.HasPrefix(impl, "res=panic") || strings.HasPrefix(impl, "stuck") || len(q.oracle) > 0 {
				return true, "", il, ml
			}
			return bad("")
		}
		if len(f) != 7 {
			return bad("")
		}
		want := strings.Join(f[:3], " ") + " " + f[5]
		if c.method[0] == "iwf" && p.res == fmt.Sprintf("err:%d", writerErrCode) {
			// the writer failed: the model's result is the one for a surviving writer
			want = "res=" + p.res + " " + f[1] + " " + f[2] + " " + f[5]
		}
		if c.realReplicator() && c.peersShouldSucceed() == false {
			// the real task returns what sink.Put returned, i.e. the error of the data; it can
			// only surface as the error of the reader's Close
			if i := strings.Fields(impl); len(i) == 4 && f[2] == "cerr=-" && i[2] != "cerr=-" {
				i[2] = "cerr=-"
				impl = strings.Join(i, " ")
			}
		}
		if want != impl {
			return bad("")
		}
		for _, id := range parseIDs(strings.TrimPrefix(f[4], "waited=")) {
			if id >= len(p.atReturn) || !p.atReturn[id] {
				return bad(fmt.Sprintf("task %d had not completed when the call returned", id))
			}
		}
		if p.termEOF && p.atTerm != nil {
			for _, id := range parseIDs(strings.TrimPrefix(f[3], "wterm=")) {
				if id >= len(p.atTerm) || !p.atTerm[id] {
					return bad(fmt.Sprintf("task %d had not completed when the end of the stream was reported", id))
				}
			}
		}
		return true, "", il, ml
	}
	return q
}

// detectLegacy: does a stream clone of a buffer with a task still know its size?
func detectLegacy() bool {
	src := &rawSrc{chunks: [][]byte{{8, 1}}}
	b := buffer_chunks(src, []byte{8, 1}).WithTask(func() error { return nil })
	b1, b2 := b.CloneStream()
	legacy := guard(func() {
		if n, err := b1.GetSizeBytes(); err != nil || n != 2 {
			panic("size")
		}
	}) != ""
	go guard(b2.Discard)
	guard(b1.Discard)
	return legacy
}

// detectRatLegacy: does a failing foreground task on a reader-at buffer leave the reader open?
func detectRatLegacy() bool {
	src := &rawSrc{all: []byte{8, 1}}
	b := buffer.NewValidatedBufferFromReaderAt(rawReaderAt{src}, 2).WithTask(func() error { return codeErr(10) })
	b.Discard()
	return src.closes.Load() == 0
}
