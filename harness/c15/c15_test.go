package c15

import (
	"fmt"
	"os"
	"strings"
	"sync"
	"testing"
	"time"

	"verifharness/hx"
)

type env struct {
	t         *testing.T
	run       *hx.Run
	model     *hx.Model
	legacy    bool           // the tree has decorateBuffer as pinned (clones lose digest and source)
	ratLegacy bool           // validatedReaderBuffer.WithTask as pinned (drops the buffer when the task fails)
	seen      map[string]int // findings per What
	queue     []*queued
	cur       atomicScript
}

// queued is a case already run on the real code, waiting for the model's replies.
type queued struct {
	name   string
	script []string
	lines  []string // requests for the model
	judge  func(replies []string) (agree bool, detail string, impl, model []string)
	oracle []string
	detail string
}

func (e *env) stop() bool { return len(e.seen) >= 8 }

// evalCase runs one script on the real code and, unbatched, on the model.
func (e *env) evalCase(name string, script []string) (q *queued, agree bool, detail string, impl, model []string) {
	q = e.prepare(name, script)
	if q == nil {
		return nil, true, "", nil, nil
	}
	agree = true
	if e.model != nil && q.judge != nil {
		agree, detail, impl, model = q.judge(e.model.Batch(q.lines))
	}
	return q, agree, detail, impl, model
}

func (e *env) prepare(name string, script []string) *queued {
	if len(script) == 0 {
		return nil
	}
	e.cur.set(name, script)
	defer e.cur.set("", nil)
	switch {
	case strings.HasPrefix(script[0], "#cfg mux"):
		return e.prepareMux(name, script)
	case strings.HasPrefix(script[0], "#cfg prog"):
		return e.prepareProg(name, script)
	}
	return nil
}

func (e *env) handle(name string, script []string) {
	q := e.prepare(name, script)
	if q == nil {
		e.run.Report(hx.Finding{Kind: "disagreement", What: "harness generated an unparsable case", Case: name, Script: script})
		return
	}
	e.queue = append(e.queue, q)
	if len(e.queue) >= 300 {
		e.flush()
	}
}

func (e *env) flush() {
	qs := e.queue
	e.queue = nil
	var replies []string
	if e.model != nil {
		var lines []string
		for _, q := range qs {
			lines = append(lines, q.lines...)
		}
		replies = e.model.Batch(lines)
	}
	off := 0
	for _, q := range qs {
		agree := true
		if replies != nil && q.judge != nil {
			agree, _, _, _ = q.judge(replies[off : off+len(q.lines)])
			e.run.Compared(len(q.lines))
		}
		off += len(q.lines)
		if agree && len(q.oracle) == 0 {
			continue
		}
		key := "disagreement"
		if len(q.oracle) > 0 {
			key = q.oracle[0]
		}
		e.run.Count("finding:" + key)
		if e.seen[key]++; e.seen[key] > 2 {
			continue
		}
		e.report(q.name, q.script, key)
	}
}

// report re-evaluates a failing case interactively, shrinks it and records the findings.
func (e *env) report(name string, script []string, key string) {
	fails := func(s []string) bool {
		q, agree, _, _, _ := e.evalCase(name, s)
		if q == nil {
			return false
		}
		if key == "disagreement" {
			return !agree && len(q.oracle) == 0
		}
		return len(q.oracle) > 0 && q.oracle[0] == key
	}
	if !fails(script) {
		e.run.Report(hx.Finding{Kind: "disagreement", What: "case failed in a batch but not when re-run", Case: name, Script: script})
		return
	}
	keep := 2
	if strings.HasPrefix(script[0], "#cfg mux") {
		keep = 3
	}
	small := hx.Shrink(script, keep, fails)
	q, agree, detail, impl, model := e.evalCase(name, small)
	for _, w := range q.oracle {
		e.run.Report(hx.Finding{Kind: "oracle", What: w, Detail: q.detail, Case: name, Script: small, Impl: impl, Model: model})
	}
	if !agree {
		w := "model/implementation differ"
		if len(q.oracle) > 0 {
			w += " (" + q.oracle[0] + ")"
		}
		e.run.Report(hx.Finding{Kind: "disagreement", What: w, Detail: detail, Case: name, Script: small, Impl: impl, Model: model})
	}
}

// atomicScript remembers the case in progress for the watchdog.
type atomicScript struct {
	mu     sync.Mutex
	name   string
	script []string
	since  time.Time
}

func (a *atomicScript) set(name string, script []string) {
	a.mu.Lock()
	a.name, a.script, a.since = name, script, time.Now()
	a.mu.Unlock()
}

func (a *atomicScript) get() (string, []string, time.Time) {
	a.mu.Lock()
	defer a.mu.Unlock()
	return a.name, a.script, a.since
}

var _ = os.Getenv
var _ = fmt.Sprint

func TestC15(t *testing.T) {
	run := hx.NewRun("C15")
	defer run.Finish(t)
	model, err := hx.StartModel()
	if err != nil {
		t.Fatalf("start model: %v", err)
	}
	defer model.Close()
	run.HasModel = model != nil
	e := &env{t: t, run: run, model: model, seen: map[string]int{}}
	e.legacy = detectLegacy()
	e.ratLegacy = detectRatLegacy()
	run.Extra("readerAt_WithTask_variant", map[bool]string{true: "as pinned (drops the buffer when the task fails)", false: "repaired"}[e.ratLegacy])
	run.Extra("decorateBuffer_variant", map[bool]string{true: "as pinned (clones lose digest and source)", false: "repaired"}[e.legacy])
	run.SetRule("mux case = scripted source (chunking, corruption, error position) x 2..4 handles x order of CloneStream/arrival/Discard x " +
		"schedule of Read/Close calls (possibly with gated source reads); program case = BufExpr (base kind x CloneStream/CloneCopy/WithTask/" +
		"WithErrorHandler nodes) x consumption method; non-trivial: mux case with >= 4 steps over a non-empty source, program with >= 1 node; " +
		"distinct by script hash")
	stopWatchdog := e.watchdog()
	defer stopWatchdog()

	if name, script := run.ReplayScript(); script != nil {
		q, agree, detail, impl, mod := e.evalCase(name, script)
		if q == nil {
			t.Fatalf("unparsable replay script")
		}
		for _, w := range q.oracle {
			run.Report(hx.Finding{Kind: "oracle", What: w, Detail: q.detail, Case: name, Script: script, Impl: impl, Model: mod})
			t.Logf("oracle: %s: %s", w, q.detail)
		}
		if !agree {
			run.Report(hx.Finding{Kind: "disagreement", What: "model/implementation differ", Detail: detail, Case: name, Script: script, Impl: impl, Model: mod})
		}
		t.Logf("requests: %v", q.lines)
		t.Logf("impl:  %v", impl)
		t.Logf("model: %v", mod)
		t.Logf("replay %s: oracle=%v agree=%v %s", name, q.oracle, agree, detail)
		return
	}
	for name, script := range run.CorpusScripts() {
		e.handle("corpus/"+name, script)
	}
	e.flush()

	// ---- Model A: schedules
	two := srcSpec{content: []byte{8, 1, 8, 2}, chunks: [][]byte{{8, 1}, {8, 2}}}
	failing := srcSpec{content: []byte{8, 1, 8, 2}, chunks: [][]byte{{8, 1}}, term: 14}
	nx := exhaustiveMux(e, 2, run.Scale(8, 10), two, false)
	nx += exhaustiveMux(e, 2, run.Scale(7, 9), failing, true)
	nx += exhaustiveMux(e, 3, run.Scale(6, 7), two, true)
	if run.Thorough() {
		nx += exhaustiveMux(e, 4, 5, failing, false)
	}
	run.Extra("exhaustive_schedules", nx)
	run.SetExhaustive(true)
	nm := run.Scale(4000, 40000)
	for i := 0; i < nm && !e.stop(); i++ {
		e.handle(fmt.Sprintf("seed%d/mux%d", run.Seed, i), genMux(hx.NewRand(run.Seed, "C15/mux", i)))
	}
	e.flush()

	// ---- Model B: programs
	e.programs()
	e.flush()
}

func (e *env) watchdog() func() {
	done := make(chan struct{})
	go func() {
		tick := time.NewTicker(2 * time.Second)
		defer tick.Stop()
		for {
			select {
			case <-done:
				return
			case <-tick.C:
				name, script, since := e.cur.get()
				if script != nil && time.Since(since) > 60*time.Second {
					e.run.Report(hx.Finding{Kind: "oracle", What: "a call on a buffer spins or blocks on a mutex forever",
						Detail: "the case did not finish within 60 s of real time", Case: name, Script: script})
					e.run.Finish(e.t)
					os.Exit(1)
				}
			}
		}
	}()
	return func() { close(done) }
}

func progDepthOverride() int {
	var v int
	fmt.Sscan(os.Getenv("C15_DEPTH"), &v)
	return v
}
