package c15

// Schedule cases: 2..4 handles of one stream-cloned buffer, consumed by
// goroutines whose calls the harness issues one at a time inside a synctest
// bubble; the same steps go to the multiplexer model.

import (
	"fmt"
	"strconv"
	"strings"
	"sync/atomic"
	"testing"
	"testing/synctest"

	"github.com/buildbarn/bb-storage/pkg/blobstore/buffer"
)

type muxCase struct {
	gated   bool
	content []byte   // what the digest describes
	chunks  [][]byte // what the source delivers
	term    int
	steps   [][]string // clone i | arrive i chunk | discard i | read i | close i
}

func parseMux(script []string) (*muxCase, error) {
	if len(script) < 2 || !strings.HasPrefix(script[0], "#cfg mux") {
		return nil, fmt.Errorf("not a mux case")
	}
	c := &muxCase{}
	for _, w := range strings.Fields(script[0])[2:] {
		switch {
		case w == "gated=1":
			c.gated = true
		case strings.HasPrefix(w, "content="):
			b, err := parseHex(strings.TrimPrefix(w, "content="))
			if err != nil {
				return nil, err
			}
			c.content = b
		}
	}
	src := strings.Fields(script[1])
	if len(src) < 2 || src[0] != "src" {
		return nil, fmt.Errorf("src line missing")
	}
	if src[1] != "eof" {
		k, err := strconv.Atoi(strings.TrimPrefix(src[1], "e"))
		if err != nil || k <= 0 {
			return nil, fmt.Errorf("bad term")
		}
		c.term = k
	}
	for _, h := range src[2:] {
		b, err := parseHex(h)
		if err != nil {
			return nil, err
		}
		c.chunks = append(c.chunks, b)
	}
	for _, l := range script[2:] {
		f := strings.Fields(l)
		if len(f) < 2 {
			return nil, fmt.Errorf("bad step %q", l)
		}
		c.steps = append(c.steps, f)
	}
	return c, nil
}

type handle struct {
	buf     buffer.Buffer
	state   int // 0 fresh, 1 consuming (goroutine started), 2 closed
	discard bool
	chunk   int
	cmd     chan string
	served  atomic.Bool // has its ChunkReader
	busy    atomic.Bool // inside Read
	closed  atomic.Bool
	panicV  atomic.Value
	results []string
	data    []byte
	maxLen  int
}

type muxObs struct {
	line      string   // canonical final state, comparable with the model's reply
	muxLine   string   // request line for the model
	negLine   string   // request line for the negotiation model
	negChunk  int      // observed negotiated chunk size (0: not observable)
	negCmp    bool
	oracle    []string // property violations observed (What sentences)
	detail    string
	steps     int
	rounds    int
	stuck     bool
}

func (h *handle) run(o *[]string) {
	defer func() {
		if p := recover(); p != nil {
			h.panicV.Store(fmt.Sprint(p))
			h.busy.Store(false)
			h.closed.Store(true)
		}
	}()
	if h.discard {
		h.buf.Discard()
		h.closed.Store(true)
		return
	}
	r := h.buf.ToChunkReader(0, h.chunk)
	h.served.Store(true)
	for c := range h.cmd {
		if c == "read" {
			d, err := r.Read()
			h.results = append(h.results, resString(d, err))
			if err == nil {
				h.data = append(h.data, d...)
				if len(d) > h.maxLen {
					h.maxLen = len(d)
				}
			}
			h.busy.Store(false)
		} else {
			r.Close()
			h.closed.Store(true)
			return
		}
	}
}

const (
	whatStuck    = "a consumer of a stream clone blocks forever"
	whatPanic    = "a consumer of a stream clone panics"
	whatDiffer   = "consumers of stream clones saw different results"
	whatCloses   = "the source of a stream-cloned buffer is not closed exactly once"
	whatEarly    = "a waiting consumer got a result before the source produced it"
	whatData     = "a stream clone delivered bytes that differ from the blob"
	whatChunk    = "a stream clone delivered a chunk larger than a consumer asked for"
	whatCallback = "the data integrity callback of a stream-cloned buffer ran more than once"
)

// exec runs the case on the real code inside a synctest bubble.
func (c *muxCase) exec(t *testing.T) (o *muxObs) {
	o = &muxObs{}
	defer func() {
		if p := recover(); p != nil {
			msg := fmt.Sprint(p)
			if !strings.Contains(msg, "deadlock") {
				panic(p)
			}
			o.stuck = true
			o.violate(whatStuck, "goroutines still blocked when the case ended: "+msg)
		}
	}()
	synctest.Test(t, func(t *testing.T) { c.body(o) })
	return o
}

func (o *muxObs) violate(what, detail string) {
	for _, w := range o.oracle {
		if w == what {
			return
		}
	}
	o.oracle = append(o.oracle, what)
	if o.detail == "" {
		o.detail = detail
	}
}

func isPrefix(a, b []string) bool {
	if len(a) > len(b) {
		a, b = b, a
	}
	for i := range a {
		if a[i] != b[i] {
			return false
		}
	}
	return true
}

// refSeq drains an identical, uncloned buffer: the result sequence of the
// reader the multiplexer sits on.
func (c *muxCase) refSeq(chunk int) (chunks []string, term string) {
	src := &rawSrc{chunks: c.chunks, term: c.term}
	var a, b atomic.Int32
	r := buffer.NewCASBufferFromChunkReader(digestOf(c.content), src, backend(&a, &b)).ToChunkReader(0, chunk)
	defer r.Close()
	for i := 0; i < 10000; i++ {
		d, err := r.Read()
		if err != nil {
			return chunks, resString(nil, err)
		}
		chunks = append(chunks, hexOr(d))
	}
	return chunks, "eof"
}
