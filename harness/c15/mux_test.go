package c15

// Schedule cases: 2..4 handles of one stream-cloned buffer, consumed by
// goroutines whose calls the harness issues one at a time inside a synctest
// bubble; the same steps go to the multiplexer model.

import (
	"fmt"
	"strconv"
	"strings"
	"sync/atomic"
	"testing"
	"testing/synctest"

	"github.com/buildbarn/bb-storage/pkg/blobstore/buffer"
)

type muxCase struct {
	gated   bool
	content []byte   // what the digest describes
	chunks  [][]byte // what the source delivers
	term    int
	steps   [][]string // clone i | arrive i chunk | discard i | read i | close i
}

func parseMux(script []string) (*muxCase, error) {
	if len(script) < 2 || !strings.HasPrefix(script[0], "#cfg mux") {
		return nil, fmt.Errorf("not a mux case")
	}
	c := &muxCase{}
	for _, w := range strings.Fields(script[0])[2:] {
		switch {
		case w == "gated=1":
			c.gated = true
		case strings.HasPrefix(w, "content="):
			b, err := parseHex(strings.TrimPrefix(w, "content="))
			if err != nil {
				return nil, err
			}
			c.content = b
		}
	}
	src := strings.Fields(script[1])
	if len(src) < 2 || src[0] != "src" {
		return nil, fmt.Errorf("src line missing")
	}
	if src[1] != "eof" {
		k, err := strconv.Atoi(strings.TrimPrefix(src[1], "e"))
		if err != nil || k <= 0 {
			return nil, fmt.Errorf("bad term")
		}
		c.term = k
	}
	for _, h := range src[2:] {
		b, err := parseHex(h)
		if err != nil {
			return nil, err
		}
		c.chunks = append(c.chunks, b)
	}
	for _, l := range script[2:] {
		f := strings.Fields(l)
		if len(f) < 2 {
			return nil, fmt.Errorf("bad step %q", l)
		}
		c.steps = append(c.steps, f)
	}
	return c, nil
}

type handle struct {
	buf     buffer.Buffer
	state   int // 0 fresh, 1 consuming (goroutine started), 2 closed
	discard bool
	chunk   int
	cmd     chan string
	served  atomic.Bool // has its ChunkReader
	busy    atomic.Bool // inside Read
	closed  atomic.Bool
	panicV  atomic.Value
	results []string
	data    []byte
	maxLen  int
}

type muxObs struct {
	line     string // canonical final state, comparable with the model's reply
	muxLine  string // request line for the model
	negLine  string // request line for the negotiation model
	negChunk int    // observed negotiated chunk size (0: not observable)
	negCmp   bool
	oracle   []string // property violations observed (What sentences)
	detail   string
	steps    int
	rounds   int
	stuck    bool
}

func (h *handle) run(o *[]string) {
	defer func() {
		if p := recover(); p != nil {
			h.panicV.Store(fmt.Sprint(p))
			h.busy.Store(false)
			h.closed.Store(true)
		}
	}()
	if h.discard {
		h.buf.Discard()
		h.closed.Store(true)
		return
	}
	r := h.buf.ToChunkReader(0, h.chunk)
	h.served.Store(true)
	for c := range h.cmd {
		if c == "read" {
			d, err := r.Read()
			h.results = append(h.results, resString(d, err))
			if err == nil {
				h.data = append(h.data, d...)
				if len(d) > h.maxLen {
					h.maxLen = len(d)
				}
			}
			h.busy.Store(false)
		} else {
			r.Close()
			h.closed.Store(true)
			return
		}
	}
}

const (
	whatStuck    = "a consumer of a stream clone blocks forever"
	whatPanic    = "a consumer of a stream clone panics"
	whatDiffer   = "consumers of stream clones saw different results"
	whatCloses   = "the source of a stream-cloned buffer is not closed exactly once"
	whatEarly    = "a waiting consumer got a result before the source produced it"
	whatData     = "a stream clone delivered bytes that differ from the blob"
	whatChunk    = "a stream clone delivered a chunk larger than a consumer asked for"
	whatCallback = "the data integrity callback of a stream-cloned buffer ran more than once"
)

// exec runs the case on the real code inside a synctest bubble.
func (c *muxCase) exec(t *testing.T) (o *muxObs) {
	o = &muxObs{}
	defer func() {
		if p := recover(); p != nil {
			msg := fmt.Sprint(p)
			if !strings.Contains(msg, "deadlock") {
				panic(p)
			}
			o.stuck = true
			o.violate(whatStuck, "goroutines still blocked when the case ended: "+msg)
		}
	}()
	synctest.Test(t, func(t *testing.T) { c.body(o) })
	return o
}

func (o *muxObs) violate(what, detail string) {
	for _, w := range o.oracle {
		if w == what {
			return
		}
	}
	o.oracle = append(o.oracle, what)
	if o.detail == "" {
		o.detail = detail
	}
}

func isPrefix(a, b []string) bool {
	if len(a) > len(b) {
		a, b = b, a
	}
	for i := range a {
		if a[i] != b[i] {
			return false
		}
	}
	return true
}

// refSeq drains an identical, uncloned buffer: the result sequence of the
// reader the multiplexer sits on.
func (c *muxCase) refSeq(chunk int) (chunks []string, term string) {
	src := &rawSrc{chunks: c.chunks, term: c.term}
	var a, b atomic.Int32
	r := buffer.NewCASBufferFromChunkReader(digestOf(c.content), src, backend(&a, &b)).ToChunkReader(0, chunk)
	defer r.Close()
	for i := 0; i < 10000; i++ {
		d, err := r.Read()
		if err != nil {
			return chunks, resString(nil, err)
		}
		chunks = append(chunks, hexOr(d))
	}
	return chunks, "eof"
}

func (c *muxCase) body(o *muxObs) {
	src := &rawSrc{chunks: c.chunks, term: c.term}
	if c.gated {
		src.gate = make(chan struct{})
	}
	var calls, bad atomic.Int32
	hs := []*handle{{buf: buffer.NewCASBufferFromChunkReader(digestOf(c.content), src, backend(&calls, &bad))}}
	var acts, negActs []string
	created := false
	busyBefore := func() []bool {
		b := make([]bool, len(hs))
		for i, h := range hs {
			b[i] = h.busy.Load()
		}
		return b
	}
	settle := func(before []bool) {
		synctest.Wait()
		for src.gate != nil && src.waiting.Load() {
			for j, h := range hs {
				if j < len(before) && before[j] && !h.busy.Load() {
					o.violate(whatEarly, fmt.Sprintf("consumer %d returned while the source read was still in progress", j))
				}
			}
			src.gate <- struct{}{}
			synctest.Wait()
			o.rounds++
		}
	}
	check := func() {
		open, blocked := 0, 0
		for j, h := range hs {
			if p := h.panicV.Load(); p != nil {
				o.violate(whatPanic, fmt.Sprintf("consumer %d: %v", j, p))
			}
			if !h.closed.Load() {
				open++
				if h.busy.Load() || (h.state == 1 && !h.served.Load() && created) {
					blocked++
				}
			}
		}
		if open > 0 && src.closes.Load() > 0 {
			o.violate(whatCloses, "source closed while a consumer had not closed")
		}
		if created && open > 0 && blocked == open {
			o.violate(whatStuck, "every open consumer is blocked in Read")
		}
	}
	completions := func(before []bool, except int) {
		for j, h := range hs {
			if j != except && before[j] && !h.busy.Load() {
				acts = append(acts, fmt.Sprintf("re%d", j))
			}
		}
	}
	arrive := func(i int, discard bool, chunk int) {
		h := hs[i]
		h.state, h.discard, h.chunk, h.cmd = 1, discard, chunk, make(chan string)
		if discard {
			negActs = append(negActs, fmt.Sprintf("co%d.0.65536", i))
		} else {
			negActs = append(negActs, fmt.Sprintf("co%d.1.%d", i, chunk))
		}
		go h.run(nil)
		settle(nil)
		fresh := 0
		for _, x := range hs {
			if x.state == 0 {
				fresh++
			}
		}
		if fresh == 0 && !created {
			created = true
			for j, x := range hs {
				if x.discard {
					acts = append(acts, fmt.Sprintf("c%d", j))
				}
			}
		}
		check()
	}
	doRead := func(i int) {
		before := busyBefore()
		hs[i].busy.Store(true)
		hs[i].cmd <- "read"
		settle(before)
		acts = append(acts, fmt.Sprintf("rb%d", i))
		completions(before, i)
		check()
	}
	doClose := func(i int) {
		before := busyBefore()
		hs[i].cmd <- "close"
		settle(before)
		hs[i].state = 2
		acts = append(acts, fmt.Sprintf("c%d", i))
		completions(before, i)
		check()
	}
	callable := func(i int) bool {
		if i < 0 || i >= len(hs) {
			return false
		}
		h := hs[i]
		return created && h.state == 1 && !h.discard && h.served.Load() && !h.busy.Load() && !h.closed.Load()
	}
	for _, st := range c.steps {
		i, err := strconv.Atoi(st[1])
		if err != nil || i < 0 || i >= len(hs) {
			continue
		}
		switch st[0] {
		case "clone":
			if hs[i].state == 0 && len(hs) < 6 {
				b1, b2 := hs[i].buf.CloneStream()
				hs[i].buf = b1
				hs = append(hs, &handle{buf: b2})
				negActs = append(negActs, fmt.Sprintf("cl%d", i))
				o.steps++
			}
		case "arrive", "discard":
			if hs[i].state == 0 && len(hs) >= 2 {
				chunk := 65536
				if st[0] == "arrive" && len(st) >= 3 {
					if v, err := strconv.Atoi(st[2]); err == nil && v >= 1 {
						chunk = v
					}
				}
				arrive(i, st[0] == "discard", chunk)
				o.steps++
			}
		case "read":
			if callable(i) {
				doRead(i)
				o.steps++
			}
		case "close":
			if callable(i) {
				doClose(i)
				o.steps++
			}
		}
	}
	c.finish(o, src, &hs, &acts, &negActs, &created, arrive, doClose, callable, &calls)
}

func (c *muxCase) finish(o *muxObs, src *rawSrc, hsp *[]*handle, acts, negActs *[]string, created *bool,
	arrive func(int, bool, int), doClose func(int), callable func(int) bool, calls *atomic.Int32) {
	if len(*hsp) < 2 {
		(*hsp)[0].buf.Discard()
		return
	}
	for i := range *hsp {
		if (*hsp)[i].state == 0 {
			arrive(i, true, 0)
		}
	}
	for progress := true; progress; {
		progress = false
		for i := range *hsp {
			if callable(i) {
				doClose(i)
				progress = true
			}
		}
	}
	hs := *hsp
	minChunk := 65536
	var longest []string
	for j, h := range hs {
		if !h.closed.Load() {
			o.violate(whatStuck, fmt.Sprintf("consumer %d never got to close", j))
			o.stuck = true
		}
		if !h.discard && h.chunk < minChunk {
			minChunk = h.chunk
		}
		if len(h.results) > len(longest) {
			longest = h.results
		}
	}
	panicked := 0
	var parts []string
	for j, h := range hs {
		if h.panicV.Load() != nil {
			panicked = 1
		}
		if !isPrefix(h.results, longest) {
			o.violate(whatDiffer, fmt.Sprintf("consumer %d: %v, longest: %v", j, h.results, longest))
		}
		if h.maxLen > minChunk {
			o.violate(whatChunk, fmt.Sprintf("consumer %d got %d bytes, smallest request %d", j, h.maxLen, minChunk))
		}
		if n := len(h.results); n > 0 && h.results[n-1] == "eof" && string(h.data) != string(c.content) {
			o.violate(whatData, fmt.Sprintf("consumer %d read %x to EOF, blob is %x", j, h.data, c.content))
		}
		st := "x"
		if !h.closed.Load() {
			st = "?"
		}
		got := "-"
		if len(h.results) > 0 {
			got = strings.Join(h.results, ",")
		}
		parts = append(parts, fmt.Sprintf("%d:%s:%s", j, st, got))
	}
	if !o.stuck && src.closes.Load() != 1 {
		o.violate(whatCloses, fmt.Sprintf("Close was called %d times", src.closes.Load()))
	}
	if calls.Load() > 1 {
		o.violate(whatCallback, fmt.Sprintf("%d calls", calls.Load()))
	}
	o.line = fmt.Sprintf("ok closes=%d panic=%d | %s", src.closes.Load(), panicked, strings.Join(parts, " "))
	chunks, term := c.refSeq(minChunk)
	o.muxLine = fmt.Sprintf("mux %d %s %s ; %s", len(hs), term, strings.Join(chunks, " "), strings.Join(*acts, " "))
	o.negLine = "neg " + strings.Join(*negActs, " ")
	if len(c.chunks) > 0 && len(c.chunks[0]) > 0 && len(longest) > 0 && strings.HasPrefix(longest[0], "c") {
		o.negCmp = true
		o.negChunk = (len(longest[0]) - 1) / 2
	}
}

// canonMux strips what the harness cannot observe from the model's reply.
func canonMux(reply string) string {
	f := strings.Fields(reply)
	var out []string
	for _, w := range f {
		if strings.HasPrefix(w, "pos=") || strings.HasPrefix(w, "pending=") {
			continue
		}
		out = append(out, w)
	}
	return strings.Join(out, " ")
}

// negAgree compares the negotiation model's reply with what was observed.
func (c *muxCase) negAgree(o *muxObs, n int, reply string) (bool, string) {
	// ok remaining=0 made=v.chunk.n panic=0
	f := strings.Fields(reply)
	if len(f) != 4 || f[0] != "ok" || f[1] != "remaining=0" || f[3] != "panic=0" {
		return false, reply
	}
	m := strings.Split(strings.TrimPrefix(f[2], "made="), ".")
	if len(m) != 3 || m[2] != strconv.Itoa(n) {
		return false, reply
	}
	if o.negCmp {
		mc, _ := strconv.Atoi(m[1])
		if l := len(c.chunks[0]); mc > l {
			mc = l
		}
		if mc != o.negChunk {
			return false, fmt.Sprintf("%s (first chunk observed: %d bytes)", reply, o.negChunk)
		}
	}
	return true, ""
}

var _ = testing.Short
