package c15

// Fake BlobAccess backends for driving the real localBlobReplicator.

import (
	"context"
	"sync/atomic"

	remoteexecution "github.com/bazelbuild/remote-apis/build/bazel/remote/execution/v2"
	"github.com/buildbarn/bb-storage/pkg/blobstore/buffer"
	"github.com/buildbarn/bb-storage/pkg/blobstore/slicing"
	"github.com/buildbarn/bb-storage/pkg/digest"
	"google.golang.org/grpc/codes"
	"google.golang.org/grpc/status"
)

type fakeBA struct {
	get  func() buffer.Buffer
	put  func(buffer.Buffer) error
	puts atomic.Int32
}

func (ba *fakeBA) GetCapabilities(ctx context.Context, instanceName digest.InstanceName) (*remoteexecution.ServerCapabilities, error) {
	return &remoteexecution.ServerCapabilities{}, nil
}

func (ba *fakeBA) Get(ctx context.Context, blobDigest digest.Digest) buffer.Buffer {
	if ba.get == nil {
		return buffer.NewBufferFromError(status.Error(codes.Unimplemented, "no Get"))
	}
	return ba.get()
}

func (ba *fakeBA) GetFromComposite(ctx context.Context, parentDigest, childDigest digest.Digest, slicer slicing.BlobSlicer) buffer.Buffer {
	return buffer.NewBufferFromError(status.Error(codes.Unimplemented, "no GetFromComposite"))
}

// Put takes ownership of the buffer like every real backend.
func (ba *fakeBA) Put(ctx context.Context, blobDigest digest.Digest, b buffer.Buffer) error {
	ba.puts.Add(1)
	if ba.put == nil {
		b.Discard()
		return status.Error(codes.Unimplemented, "no Put")
	}
	return ba.put(b)
}

func (ba *fakeBA) FindMissing(ctx context.Context, digests digest.Set) (digest.Set, error) {
	return digest.EmptySet, nil
}
