package c15

// Program cases: a BufExpr is evaluated on the real constructors and methods
// inside a synctest bubble; every task is gated, other handles of clones are
// consumed by goroutines of their own; a supervisor releases a task only when
// every goroutine is blocked.

import (
	"bytes"
	"context"
	"fmt"
	"io"
	"strconv"
	"strings"
	"sync/atomic"
	"testing"
	"testing/synctest"

	"github.com/buildbarn/bb-storage/pkg/blobstore/buffer"
	"github.com/buildbarn/bb-storage/pkg/blobstore/replication"
	"google.golang.org/grpc/codes"
	"google.golang.org/grpc/status"
	"google.golang.org/protobuf/proto"
	"google.golang.org/protobuf/types/known/emptypb"
)

const bigMax = 1000000000

type progCase struct {
	content []byte
	corrupt int // how a corrupt source differs: 0 flipped bit, 1 one byte short, 2 two bytes long
	bytesC  int // constructor of the byte slice kind: 0 validated, 1 CAS, 2 proto
	relast  int // id of the task to release last (-1: ascending order)
	chunk   int // chunk size asked from ToChunkReader
	split   int // size of the first chunk of the source
	toks    []string
	method  []string
}

func parseProg(script []string) (*progCase, error) {
	if len(script) < 3 || !strings.HasPrefix(script[0], "#cfg prog") {
		return nil, fmt.Errorf("not a prog case")
	}
	c := &progCase{relast: -1, chunk: 3, split: 2}
	for _, w := range strings.Fields(script[0])[2:] {
		kv := strings.SplitN(w, "=", 2)
		if len(kv) != 2 {
			return nil, fmt.Errorf("bad cfg %q", w)
		}
		if kv[0] == "content" {
			b, err := parseHex(kv[1])
			if err != nil {
				return nil, err
			}
			c.content = b
			continue
		}
		v, err := strconv.Atoi(kv[1])
		if err != nil {
			return nil, err
		}
		switch kv[0] {
		case "corrupt":
			c.corrupt = v
		case "bytes":
			c.bytesC = v
		case "relast":
			c.relast = v
		case "chunk":
			c.chunk = v
		case "split":
			c.split = v
		}
	}
	for _, l := range script[1:] {
		f := strings.Fields(l)
		switch {
		case len(f) == 2 && f[0] == "e":
			c.toks = append(c.toks, f[1])
		case len(f) >= 2 && f[0] == "m" && c.method == nil:
			c.method = f[1:]
		default:
			return nil, fmt.Errorf("bad line %q", l)
		}
	}
	if len(c.toks) == 0 || !strings.HasPrefix(c.toks[0], "b.") || c.method == nil || c.chunk < 1 {
		return nil, fmt.Errorf("incomplete program")
	}
	if len(c.content) == 0 && strings.HasSuffix(c.toks[0], ".c") {
		return nil, fmt.Errorf("an empty blob cannot be corrupted without adding bytes")
	}
	for _, t := range c.toks[1:] {
		if strings.HasPrefix(t, "b.") {
			return nil, fmt.Errorf("second base")
		}
	}
	return c, nil
}

type gtask struct {
	id      int
	err     int
	gate    chan struct{}
	done    atomic.Bool
	ranSync bool // had completed when WithTask returned
	open    bool // not yet released
}

type sibling struct {
	policy string
	done   atomic.Bool
	panicV atomic.Value
	data   []byte
	err    error
}

// failingWriter accepts k Write calls, then fails with code 9.
type failingWriter struct {
	left int
	buf  bytes.Buffer
}

const writerErrCode = 9

func (w *failingWriter) Write(p []byte) (int, error) {
	if w.left == 0 {
		return 0, codeErr(writerErrCode)
	}
	w.left--
	return w.buf.Write(p)
}

type handler struct{ done atomic.Int32 }

func (h *handler) OnError(err error) (buffer.Buffer, error) {
	return nil, status.Error(codes.Code(errCode(err)+20), "translated")
}
func (h *handler) Done() { h.done.Add(1) }

type progRun struct {
	c        *progCase
	src      *rawSrc
	hasSrc   bool
	calls    atomic.Int32
	bad      atomic.Int32
	tasks    []*gtask
	sibs     []*sibling
	handlers []*handler
	sinks    []*fakeBA

	mainDone    atomic.Bool
	buildPanic  string
	methodPanic string
	cleanPanic  string
	res         string
	eof         bool
	cerr        string
	sizeVal     int64
	sizeOK      bool
	data        []byte
	dataOK      bool
	written     []byte
	maxChunk    int
	atTerm      []bool
	atReturn    []bool
	termEOF     bool
	stuck       bool
}

func (p *progRun) snapshot() []bool {
	s := make([]bool, len(p.tasks))
	for i, t := range p.tasks {
		s[i] = t.done.Load()
	}
	return s
}

func guard(f func()) (msg string) {
	defer func() {
		if p := recover(); p != nil {
			msg = fmt.Sprint(p)
			if msg == "" {
				msg = "panic"
			}
		}
	}()
	f()
	return ""
}

func (p *progRun) rawData(q string) ([]byte, int) {
	raw := append([]byte{}, p.c.content...)
	switch {
	case q == "g":
	case q == "c":
		// wrong bytes or too few of them: noticed at the end of the stream
		// (excess bytes are noticed earlier; that is C09's subject)
		switch p.c.corrupt {
		case 0:
			raw[len(raw)/2] ^= 1
		case 1:
			raw = raw[:len(raw)-1]
		default:
			raw[len(raw)-1] ^= 4
		}
	case strings.HasPrefix(q, "e"):
		k, _ := strconv.Atoi(q[1:])
		return raw[:len(raw)/2], k
	}
	return raw, 0
}

func (p *progRun) base(tok string) (buffer.Buffer, error) {
	f := strings.Split(tok, ".")
	src := func(q string) *rawSrc {
		raw, term := p.rawData(q)
		p.src = &rawSrc{chunks: splitChunks(raw, []int{p.c.split}), term: term, all: raw}
		p.hasSrc = true
		return p.src
	}
	source := backend(&p.calls, &p.bad)
	switch {
	case len(f) == 2 && strings.HasPrefix(f[1], "err"):
		k, err := strconv.Atoi(f[1][3:])
		if err != nil || k <= 0 {
			return nil, fmt.Errorf("bad token %q", tok)
		}
		return buffer.NewBufferFromError(codeErr(k)), nil
	case tok == "b.bytes":
		switch p.c.bytesC {
		case 1:
			return buffer.NewCASBufferFromByteSlice(digestOf(p.c.content), p.c.content, source), nil
		case 2:
			return buffer.NewProtoBufferFromByteSlice(&emptypb.Empty{}, p.c.content, source), nil
		}
		return buffer.NewValidatedBufferFromByteSlice(p.c.content), nil
	case tok == "b.rat":
		return buffer.NewValidatedBufferFromReaderAt(rawReaderAt{src("g")}, int64(len(p.c.content))), nil
	case len(f) == 3 && f[1] == "rd":
		return buffer.NewCASBufferFromReader(digestOf(p.c.content), rawReader{src(f[2])}, source), nil
	case len(f) == 3 && f[1] == "ch":
		return buffer.NewCASBufferFromChunkReader(digestOf(p.c.content), src(f[2]), source), nil
	}
	return nil, fmt.Errorf("bad token %q", tok)
}

func (p *progRun) spawn(b buffer.Buffer, policy string) {
	s := &sibling{policy: policy}
	p.sibs = append(p.sibs, s)
	go func() {
		defer s.done.Store(true)
		if m := guard(func() {
			if policy == "r" {
				s.data, s.err = b.ToByteSlice(bigMax)
			} else {
				b.Discard()
			}
		}); m != "" {
			s.panicV.Store(m)
		}
	}()
}

// build evaluates the expression in the calling goroutine.
func (p *progRun) build() (cur buffer.Buffer, err error) {
	cur, err = p.base(p.c.toks[0])
	if err != nil {
		return nil, err
	}
	for _, tok := range p.c.toks[1:] {
		f := strings.Split(tok, ".")
		switch {
		case f[0] == "cs" && len(f) == 3 && (f[1] == "l" || f[1] == "r") && (f[2] == "d" || f[2] == "r" || f[2] == "a"):
			b1, b2 := cur.CloneStream()
			if f[1] == "r" {
				b1, b2 = b2, b1
			}
			cur = b1
			if f[2] != "a" { // a: the other handle is abandoned
				p.spawn(b2, f[2])
			}
		case f[0] == "rs" && len(f) == 2 && (f[1] == "live" || f[1] == "cancel"):
			// the real localBlobReplicator.ReplicateSingle over fake backends
			ctx := context.Background()
			if f[1] == "cancel" {
				c, cancel := context.WithCancel(ctx)
				cancel()
				ctx = c
			}
			t := &gtask{id: len(p.tasks), gate: make(chan struct{}), open: true}
			p.tasks = append(p.tasks, t)
			s := &sibling{policy: "r"}
			p.sibs = append(p.sibs, s)
			got := cur
			source := &fakeBA{get: func() buffer.Buffer { return got }}
			sink := &fakeBA{put: func(b buffer.Buffer) error {
				if m := guard(func() { s.data, s.err = b.ToByteSlice(bigMax) }); m != "" {
					s.panicV.Store(m)
				}
				s.done.Store(true)
				<-t.gate
				t.done.Store(true)
				return s.err
			}}
			p.sinks = append(p.sinks, sink)
			cur = replication.NewLocalBlobReplicator(source, sink).ReplicateSingle(ctx, digestOf(p.c.content))
			t.ranSync = t.done.Load()
		case f[0] == "cc" && len(f) == 2 && (f[1] == "l" || f[1] == "r"):
			b1, b2 := cur.CloneCopy(bigMax)
			if f[1] == "r" {
				b1, b2 = b2, b1
			}
			cur = b1
			p.spawn(b2, "d")
		case f[0] == "wt" && len(f) == 2:
			k, err := strconv.Atoi(f[1])
			if err != nil || k < 0 {
				return nil, fmt.Errorf("bad token %q", tok)
			}
			t := &gtask{id: len(p.tasks), err: k, gate: make(chan struct{}), open: true}
			p.tasks = append(p.tasks, t)
			cur = cur.WithTask(func() error {
				<-t.gate
				t.done.Store(true)
				if t.err != 0 {
					return codeErr(t.err)
				}
				return nil
			})
			t.ranSync = t.done.Load()
		case f[0] == "rp" && len(f) == 4 && (f[1] == "l" || f[1] == "r") && (f[2] == "d" || f[2] == "r" || f[2] == "a"):
			// the replication pattern: the task itself consumes the other handle
			k, err := strconv.Atoi(f[3])
			if err != nil || k < 0 {
				return nil, fmt.Errorf("bad token %q", tok)
			}
			b1, b2 := cur.CloneStream()
			if f[1] == "r" {
				b1, b2 = b2, b1
			}
			t := &gtask{id: len(p.tasks), err: k, gate: make(chan struct{}), open: true}
			p.tasks = append(p.tasks, t)
			s := &sibling{policy: f[2]}
			p.sibs = append(p.sibs, s)
			cur = b1.WithTask(func() error {
				if m := guard(func() {
					switch s.policy {
					case "r":
						s.data, s.err = b2.ToByteSlice(bigMax)
					case "d":
						b2.Discard()
					}
				}); m != "" {
					s.panicV.Store(m)
				}
				s.done.Store(true)
				<-t.gate
				t.done.Store(true)
				if t.err != 0 {
					return codeErr(t.err)
				}
				return nil
			})
			t.ranSync = t.done.Load()
		case tok == "eh":
			h := &handler{}
			p.handlers = append(p.handlers, h)
			cur = buffer.WithErrorHandler(cur, h)
		default:
			return nil, fmt.Errorf("bad token %q", tok)
		}
	}
	return cur, nil
}

func outcome(data []byte, err error) string {
	if err != nil && err != io.EOF {
		return fmt.Sprintf("err:%d", errCode(err))
	}
	return "ok:" + hexOr(data)
}

// call applies the method to the buffer in the calling goroutine.
func (p *progRun) call(b buffer.Buffer) error {
	m := p.c.method
	p.cerr = "-"
	num := func(i int) (int, error) {
		if i >= len(m) {
			return 0, fmt.Errorf("missing argument")
		}
		v, err := strconv.Atoi(m[i])
		if err != nil || v < 0 {
			return 0, fmt.Errorf("bad argument")
		}
		return v, nil
	}
	whole := func(data []byte, err error) {
		p.res = outcome(data, err)
		if err == nil {
			p.data, p.dataOK = data, true
		}
	}
	switch m[0] {
	case "size":
		n, err := b.GetSizeBytes()
		if err != nil {
			p.res = fmt.Sprintf("err:%d", errCode(err))
		} else {
			p.res, p.sizeVal, p.sizeOK = fmt.Sprintf("size:%d", n), n, true
		}
		p.atReturn = p.snapshot()
		if msg := guard(b.Discard); msg != "" {
			p.cleanPanic = msg
		}
		return nil
	case "iw":
		var w bytes.Buffer
		err := b.IntoWriter(&w)
		whole(w.Bytes(), err)
	case "iwf":
		k, e1 := num(1)
		if e1 != nil {
			return e1
		}
		w := &failingWriter{left: k}
		err := b.IntoWriter(w)
		p.res = outcome(w.buf.Bytes(), err)
		p.written = append([]byte{}, w.buf.Bytes()...)
		if err == nil {
			p.data, p.dataOK = w.buf.Bytes(), true
		}
	case "ra":
		off, e1 := num(1)
		l, e2 := num(2)
		if e1 != nil || e2 != nil || l < 1 {
			return fmt.Errorf("bad ra")
		}
		buf := make([]byte, l)
		n, err := b.ReadAt(buf, int64(off))
		p.res = outcome(buf[:n], err)
		p.eof = err == io.EOF
		if err == nil || err == io.EOF {
			p.data, p.dataOK = buf[:n], true
		}
	case "proto":
		max, e1 := num(1)
		if e1 != nil {
			return e1
		}
		msg, err := b.ToProto(&emptypb.Empty{}, max)
		var data []byte
		if err == nil {
			data, err = proto.Marshal(msg)
		}
		whole(data, err)
	case "bs":
		max, e1 := num(1)
		if e1 != nil {
			return e1
		}
		whole(b.ToByteSlice(max))
	case "cr":
		off, e1 := num(1)
		if e1 != nil || len(m) != 3 {
			return fmt.Errorf("bad cr")
		}
		r := b.ToChunkReader(int64(off), p.c.chunk)
		if m[2] == "one" {
			if d, err := r.Read(); err == nil && len(d) > p.maxChunk {
				p.maxChunk = len(d)
			}
			p.res = "ok:-"
		} else if m[2] == "all" {
			var data []byte
			var err error
			for i := 0; i < 100000; i++ {
				var d []byte
				if d, err = r.Read(); err != nil {
					break
				}
				if len(d) > p.maxChunk {
					p.maxChunk = len(d)
				}
				data = append(data, d...)
			}
			p.atTerm, p.termEOF = p.snapshot(), err == io.EOF
			if err == io.EOF {
				err = nil
			}
			whole(data, err)
		} else {
			p.res = "ok:-"
		}
		r.Close()
	case "rdr":
		if len(m) != 2 {
			return fmt.Errorf("bad rdr")
		}
		r := b.ToReader()
		if m[1] == "all" {
			data, err := io.ReadAll(r)
			p.atTerm, p.termEOF = p.snapshot(), err == nil
			whole(data, err)
		} else {
			p.res = "ok:-"
		}
		if err := r.Close(); err != nil {
			p.cerr = strconv.Itoa(errCode(err))
		}
	case "discard":
		b.Discard()
		p.res = "ok:-"
	default:
		return fmt.Errorf("bad method")
	}
	p.atReturn = p.snapshot()
	return nil
}

// exec runs the program and the method inside a bubble.
func (c *progCase) exec(t *testing.T) (p *progRun, err error) {
	p = &progRun{c: c}
	defer func() {
		if x := recover(); x != nil {
			msg := fmt.Sprint(x)
			if !strings.Contains(msg, "deadlock") {
				panic(x)
			}
			p.stuck = true
		}
	}()
	synctest.Test(t, func(t *testing.T) {
		go func() {
			defer p.mainDone.Store(true)
			var b buffer.Buffer
			p.buildPanic = guard(func() { b, err = p.build() })
			if p.buildPanic != "" || err != nil {
				return
			}
			p.methodPanic = guard(func() { err = p.call(b) })
		}()
		release := func(all bool) bool {
			var pick *gtask
			for _, tk := range p.tasks {
				if tk.open && (tk.id != c.relast || all) {
					pick = tk
					break
				}
			}
			if pick == nil {
				for _, tk := range p.tasks {
					if tk.open {
						pick = tk
					}
				}
			}
			if pick == nil {
				return false
			}
			pick.open = false
			close(pick.gate)
			return true
		}
		for {
			synctest.Wait()
			if p.mainDone.Load() {
				break
			}
			if !release(false) {
				p.stuck = true // the main call is blocked although every task has completed
				return
			}
		}
		for release(true) {
		}
		synctest.Wait()
	})
	return p, err
}
