// Package c16 ties the Lean model of buffer.WithErrorHandler (BB.ErrorHandling)
// to the real pkg/blobstore/buffer code and checks the statements of property
// C16 directly on the observed behaviour: bytes delivered exactly once and in
// order across replacement buffers, validation across the stitched parts,
// every error offered to the handler once, handler errors returned verbatim,
// Done called exactly once.
package c16

import (
	"bytes"
	"crypto/md5"
	"encoding/hex"
	"errors"
	"fmt"
	"io"
	"os"
	"regexp"
	"runtime/debug"
	"sort"
	"strconv"
	"strings"
	"sync"
	"testing"
	"time"

	remoteexecution "github.com/bazelbuild/remote-apis/build/bazel/remote/execution/v2"
	"github.com/buildbarn/bb-storage/pkg/blobstore/buffer"
	"github.com/buildbarn/bb-storage/pkg/digest"
	"google.golang.org/grpc/codes"
	"google.golang.org/grpc/status"

	"verifharness/hx"
)

// ---------------------------------------------------------------- case description

type item struct {
	fail bool
	k    int
	data []byte
}

// bufSpec is one buffer: kind B (validated byte slice), E (error buffer),
// S (NewCASBufferFromByteSlice), C (CAS over scripted ChunkReader), R (CAS
// over scripted io.ReadCloser), K / V (one half of CloneStream() of a C buffer; the other half is
// discarded / read to the end by a second goroutine), A (validated ReaderAt buffer whose storage
// continues before and after the object); F is only valid as a handler response
// (the handler returns error k).
type bufSpec struct {
	kind  byte
	k     int
	data  []byte
	items []item
	// kind A: NewValidatedBufferFromReaderAt over storage holding pre, data, suf back to back
	suf, pre []byte
	failAt   int // kind A: the medium fails at this position of the object (ReadAt returns the bytes before it and error k); < 0 = never
	// kind W: WithErrorHandler(inner, a handler of its own answering with hin) - a stacked backend
	inner *bufSpec
	hin   []bufSpec
}

// all returns the buffer and every buffer nested in it.
func (b bufSpec) all() []bufSpec {
	res := []bufSpec{b}
	if b.kind == 'W' {
		res = append(res, b.inner.all()...)
		for _, r := range b.hin {
			res = append(res, r.all()...)
		}
	}
	return res
}

func (c caseSpec) allBufs() []bufSpec {
	res := c.base.all()
	for _, r := range c.resps {
		res = append(res, r.all()...)
	}
	return res
}

func (c caseSpec) nested() bool {
	for _, b := range c.allBufs() {
		if b.kind == 'W' {
			return true
		}
	}
	return false
}

type caseSpec struct {
	d     []byte // the bytes the digest stands for
	size  int    // the digest's size field
	op    string
	base  bufSpec
	resps []bufSpec
}

func (b bufSpec) String() string {
	switch b.kind {
	case 'B', 'S':
		return fmt.Sprintf("%c:%s", b.kind, hx.Hex(b.data))
	case 'E', 'F':
		return fmt.Sprintf("%c:%d", b.kind, b.k)
	case 'A':
		if b.failAt >= 0 {
			return fmt.Sprintf("A:%s/%s/%s/%d!%d", hx.Hex(b.data), hx.Hex(b.suf), hx.Hex(b.pre), b.failAt, b.k)
		}
		return fmt.Sprintf("A:%s/%s/%s", hx.Hex(b.data), hx.Hex(b.suf), hx.Hex(b.pre))
	case 'W':
		ws := []string{b.inner.String()}
		for _, r := range b.hin {
			ws = append(ws, r.String())
		}
		return "W[" + strings.Join(ws, "|") + "]"
	}
	if len(b.items) == 0 {
		return fmt.Sprintf("%c:_", b.kind)
	}
	ws := make([]string, len(b.items))
	for i, it := range b.items {
		if it.fail {
			ws[i] = fmt.Sprintf("!%d", it.k)
		} else {
			ws[i] = hx.Hex(it.data)
		}
	}
	return fmt.Sprintf("%c:%s", b.kind, strings.Join(ws, "."))
}

func (c caseSpec) line() string {
	ws := []string{"run", hx.Hex(c.d), strconv.Itoa(c.size), c.op, c.base.String()}
	for _, r := range c.resps {
		ws = append(ws, r.String())
	}
	return strings.Join(ws, " ")
}

func unhex(s string) ([]byte, bool) {
	if s == "-" {
		return []byte{}, true
	}
	b, err := hex.DecodeString(s)
	return b, err == nil
}

func parseBuf(w string) (bufSpec, bool) {
	if strings.HasPrefix(w, "W[") && strings.HasSuffix(w, "]") {
		var parts []string
		depth, start := 0, 2
		for i := 2; i < len(w)-1; i++ {
			switch w[i] {
			case '[':
				depth++
			case ']':
				depth--
			case '|':
				if depth == 0 {
					parts = append(parts, w[start:i])
					start = i + 1
				}
			}
		}
		parts = append(parts, w[start:len(w)-1])
		b := bufSpec{kind: 'W'}
		for i, x := range parts {
			pb, ok := parseBuf(x)
			if !ok || (i == 0 && pb.kind == 'F') {
				return b, false
			}
			if i == 0 {
				b.inner = &pb
			} else {
				b.hin = append(b.hin, pb)
			}
		}
		return b, b.inner != nil
	}
	p := strings.SplitN(w, ":", 2)
	if len(p) != 2 || len(p[0]) != 1 {
		return bufSpec{}, false
	}
	b := bufSpec{kind: p[0][0]}
	switch b.kind {
	case 'B', 'S':
		d, ok := unhex(p[1])
		b.data = d
		return b, ok
	case 'E', 'F':
		k, err := strconv.Atoi(p[1])
		b.k = k
		return b, err == nil
	case 'A':
		q := strings.Split(p[1], "/")
		b.failAt = -1
		if len(q) == 4 {
			fk := strings.Split(q[3], "!")
			if len(fk) != 2 {
				return b, false
			}
			f, err1 := strconv.Atoi(fk[0])
			k, err2 := strconv.Atoi(fk[1])
			if err1 != nil || err2 != nil || f < 0 {
				return b, false
			}
			b.failAt, b.k = f, k
			q = q[:3]
		}
		if len(q) != 3 {
			return b, false
		}
		var ok1, ok2, ok3 bool
		b.data, ok1 = unhex(q[0])
		b.suf, ok2 = unhex(q[1])
		b.pre, ok3 = unhex(q[2])
		return b, ok1 && ok2 && ok3
	case 'C', 'R', 'K', 'V':
		if p[1] == "_" {
			return b, true
		}
		for _, w := range strings.Split(p[1], ".") {
			if strings.HasPrefix(w, "!") {
				k, err := strconv.Atoi(w[1:])
				if err != nil {
					return b, false
				}
				b.items = append(b.items, item{fail: true, k: k})
			} else {
				d, ok := unhex(w)
				if !ok {
					return b, false
				}
				b.items = append(b.items, item{data: d})
			}
		}
		return b, true
	}
	return b, false
}

func parseLine(line string) (caseSpec, bool) {
	w := strings.Fields(line)
	if len(w) < 5 || w[0] != "run" {
		return caseSpec{}, false
	}
	var c caseSpec
	var ok bool
	if c.d, ok = unhex(w[1]); !ok {
		return c, false
	}
	sz, err := strconv.Atoi(w[2])
	if err != nil {
		return c, false
	}
	c.size = sz
	c.op = w[3]
	if c.base, ok = parseBuf(w[4]); !ok || c.base.kind == 'F' {
		return c, false
	}
	for _, x := range w[5:] {
		r, ok := parseBuf(x)
		if !ok {
			return c, false
		}
		c.resps = append(c.resps, r)
	}
	return c, true
}

// ---------------------------------------------------------------- scripted collaborators

var (
	errExhausted = status.Error(codes.Unavailable, "handler script exhausted")
	errWriter    = errors.New("writer failed")
)

type env struct {
	c       caseSpec
	dig     digest.Digest
	errs    map[int]error
	rev     map[error]int
	emitted []int // tags of failures returned by scripted sources, in order
	opens   int
	closes  int
	inner   []*handler // handlers of stacked buffers (kind W), in order of construction
	mu      sync.Mutex // clone halves are consumed by a second goroutine
	wg      sync.WaitGroup
	partner string // panic of a second goroutine, if any
	clones  int
}

func newEnv(c caseSpec) *env {
	sum := md5.Sum(c.d)
	return &env{c: c, errs: map[int]error{}, rev: map[error]int{},
		dig: digest.MustNewDigest("verif", remoteexecution.DigestFunction_MD5, hex.EncodeToString(sum[:]), int64(c.size))}
}

func (e *env) errOf(k int) error {
	e.mu.Lock()
	defer e.mu.Unlock()
	if err, ok := e.errs[k]; ok {
		return err
	}
	err := status.Error(codes.Unavailable, fmt.Sprintf("T%d", k))
	e.errs[k] = err
	e.rev[err] = k
	return err
}

type chunkSrc struct {
	e     *env
	items []item
}

func (s *chunkSrc) Read() ([]byte, error) {
	if len(s.items) == 0 {
		return nil, io.EOF
	}
	it := s.items[0]
	s.items = s.items[1:]
	if it.fail {
		s.e.mu.Lock()
		s.e.emitted = append(s.e.emitted, it.k)
		s.e.mu.Unlock()
		return nil, s.e.errOf(it.k)
	}
	return append([]byte{}, it.data...), nil
}

func (s *chunkSrc) Close() { s.e.mu.Lock(); s.e.closes++; s.e.mu.Unlock() }

type readSrc struct {
	e     *env
	items []item
}

func (s *readSrc) Read(p []byte) (int, error) {
	for len(s.items) > 0 && !s.items[0].fail && len(s.items[0].data) == 0 {
		s.items = s.items[1:]
	}
	if len(s.items) == 0 {
		return 0, io.EOF
	}
	if s.items[0].fail {
		k := s.items[0].k
		s.items = s.items[1:]
		s.e.emitted = append(s.e.emitted, k)
		return 0, s.e.errOf(k)
	}
	n := copy(p, s.items[0].data)
	s.items[0].data = s.items[0].data[n:]
	if len(s.items[0].data) == 0 {
		s.items = s.items[1:]
	}
	return n, nil
}

func (s *readSrc) Close() error { s.e.closes++; return nil }

// readAtSrc is the storage region a validated ReaderAt buffer reads from: it starts at the object
// and continues with whatever is stored after it.
type readAtSrc struct {
	*io.SectionReader
	e      *env
	failAt int64 // < 0 = never
	k      int
}

// ReadAt: a read that touches the failing position returns the bytes before it and the error.
func (s *readAtSrc) ReadAt(p []byte, off int64) (int, error) {
	if s.failAt >= 0 && off >= 0 && off < s.Size() && len(p) > 0 {
		end := off + int64(len(p))
		if end > s.Size() {
			end = s.Size()
		}
		if end > s.failAt {
			n := 0
			if s.failAt > off {
				n, _ = s.SectionReader.ReadAt(p[:s.failAt-off], off)
			}
			s.e.mu.Lock()
			s.e.emitted = append(s.e.emitted, s.k)
			s.e.mu.Unlock()
			return n, s.e.errOf(s.k)
		}
	}
	return s.SectionReader.ReadAt(p, off)
}

func (s *readAtSrc) Close() error { s.e.mu.Lock(); s.e.closes++; s.e.mu.Unlock(); return nil }

func cloneItems(in []item) []item {
	out := make([]item, len(in))
	for i, it := range in {
		out[i] = item{fail: it.fail, k: it.k, data: append([]byte{}, it.data...)}
	}
	return out
}

func (e *env) build(b bufSpec) buffer.Buffer {
	src := buffer.BackendProvided(func(bool) {})
	switch b.kind {
	case 'B':
		return buffer.NewValidatedBufferFromByteSlice(append([]byte{}, b.data...))
	case 'S':
		return buffer.NewCASBufferFromByteSlice(e.dig, append([]byte{}, b.data...), src)
	case 'E':
		return buffer.NewBufferFromError(e.errOf(b.k))
	case 'C':
		e.opens++
		return buffer.NewCASBufferFromChunkReader(e.dig, &chunkSrc{e: e, items: cloneItems(b.items)}, src)
	case 'R':
		e.opens++
		return buffer.NewCASBufferFromReader(e.dig, &readSrc{e: e, items: cloneItems(b.items)}, src)
	case 'A':
		backing := append(append(append([]byte{}, b.pre...), b.data...), b.suf...)
		return buffer.NewValidatedBufferFromReaderAt(
			&readAtSrc{e: e, failAt: int64(b.failAt), k: b.k, SectionReader: io.NewSectionReader(bytes.NewReader(backing), int64(len(b.pre)), int64(len(b.data)+len(b.suf)))},
			int64(len(b.data)))
	case 'K', 'V':
		e.opens++
		b1, b2 := buffer.NewCASBufferFromChunkReader(e.dig, &chunkSrc{e: e, items: cloneItems(b.items)}, src).CloneStream()
		e.wg.Add(1)
		e.clones++
		go func(kind byte) {
			defer e.wg.Done()
			defer func() {
				if r := recover(); r != nil {
					e.mu.Lock()
					e.partner = fmt.Sprint(r)
					e.mu.Unlock()
				}
			}()
			if kind == 'K' {
				b2.Discard()
				return
			}
			r := b2.ToChunkReader(0, 64*1024)
			for {
				if _, err := r.Read(); err != nil {
					break
				}
			}
			r.Close()
		}(b.kind)
		return b1
	case 'W':
		h := &handler{e: e, base: *b.inner, resps: b.hin}
		e.inner = append(e.inner, h)
		return buffer.WithErrorHandler(e.build(*b.inner), h)
	}
	panic("bad buffer kind")
}

type handler struct {
	e     *env
	base  bufSpec   // the buffer the handler was attached to
	resps []bufSpec // its answers
	idx   int
	log   []error
	done  int
}

func (h *handler) OnError(err error) (buffer.Buffer, error) {
	h.log = append(h.log, err)
	if h.idx >= len(h.resps) {
		h.idx++
		return nil, errExhausted
	}
	r := h.resps[h.idx]
	h.idx++
	if r.kind == 'F' {
		return nil, h.e.errOf(r.k)
	}
	return h.e.build(r), nil
}

func (h *handler) Done() { h.done++ }

type recWriter struct {
	failAt int // -1 = never
	n      int
	writes [][]byte
}

func (w *recWriter) Write(p []byte) (int, error) {
	if w.n == w.failAt {
		w.n++
		return 0, errWriter
	}
	w.n++
	w.writes = append(w.writes, append([]byte{}, p...))
	return len(p), nil
}

// ---------------------------------------------------------------- canonical errors

var (
	reSize     = regexp.MustCompile(`^Buffer is (\d+) bytes in size, while (\d+) bytes were expected$`)
	reTooBig   = regexp.MustCompile(`^Buffer is at least \d+ bytes in size, while \d+ bytes were expected$`)
	reHash     = regexp.MustCompile(`^Buffer has checksum [0-9a-f]+, while [0-9a-f]+ was expected$`)
	reBadOff   = regexp.MustCompile(`^Buffer is (\d+) bytes in size, while a read at offset (\d+) was requested$`)
	reTooLarge = regexp.MustCompile(`^Buffer is (\d+) bytes in size, while a maximum of (\d+) bytes is permitted$`)
)

func (e *env) tagOf(err error) string {
	if k, ok := e.rev[err]; ok {
		return fmt.Sprintf("t%d", k)
	}
	if err == errExhausted {
		return "exhausted"
	}
	if err == errWriter {
		return "writer"
	}
	if err == io.EOF {
		return "raw-eof"
	}
	st := status.Convert(err)
	msg, code := st.Message(), st.Code()
	want := func(tag string, c codes.Code) string {
		if code != c {
			return tag + "!code=" + code.String()
		}
		return tag
	}
	if m := reSize.FindStringSubmatch(msg); m != nil {
		return want(fmt.Sprintf("size:%s:%s", m[2], m[1]), codes.Internal)
	}
	if reTooBig.MatchString(msg) {
		return want("toobig", codes.Internal)
	}
	if reHash.MatchString(msg) {
		return want("hash", codes.Internal)
	}
	if m := reBadOff.FindStringSubmatch(msg); m != nil {
		return want(fmt.Sprintf("badoff:%s:%s", m[1], m[2]), codes.InvalidArgument)
	}
	if m := reTooLarge.FindStringSubmatch(msg); m != nil {
		return want(fmt.Sprintf("toolarge:%s:%s", m[1], m[2]), codes.InvalidArgument)
	}
	return "other:" + code.String() + ":" + strings.ReplaceAll(msg, " ", "_")
}

// ---------------------------------------------------------------- running one case on the real code

// obs is what the oracle looks at.
type obs struct {
	reply     string
	panicked  string
	delivered []byte // all bytes handed to the consumer, concatenated
	complete  bool   // the consumer was told the object is complete (nil / io.EOF at the end)
	finalErr  error  // the error the consumer got, if any
	stopped   bool   // the consumer stopped early by its own choice (early Close, failing writer)
	off, n    int    // start offset (readat/chunks), length (readat; -1 = to the end)
	h         *handler
	e         *env
}

func joinOr(sep string, l []string) string {
	if len(l) == 0 {
		return "-"
	}
	return strings.Join(l, sep)
}

func atoi(s string) int { v, _ := strconv.Atoi(s); return v }

func runReal(c caseSpec) (o obs) {
	e := newEnv(c)
	h := &handler{e: e, base: c.base, resps: c.resps}
	o.e, o.h, o.n = e, h, -1
	var result string
	func() {
		defer func() {
			if r := recover(); r != nil {
				o.panicked = fmt.Sprint(r)
			}
		}()
		b := buffer.WithErrorHandler(e.build(c.base), h)
		op := strings.Split(c.op, ":")
		status3 := func(err error) string {
			switch err {
			case nil:
				return "ok"
			case io.EOF:
				return "eof"
			}
			return "err:" + e.tagOf(err)
		}
		switch op[0] {
		case "slice":
			data, err := b.ToByteSlice(atoi(op[1]))
			if err != nil {
				o.finalErr = err
				result = "err:" + e.tagOf(err)
			} else {
				o.delivered, o.complete = data, true
				result = "ok:" + hx.Hex(data)
			}
		case "writer":
			w := &recWriter{failAt: -1}
			if op[1] != "-" {
				w.failAt = atoi(op[1])
			}
			err := b.IntoWriter(w)
			var ws []string
			for _, x := range w.writes {
				ws = append(ws, hx.Hex(x))
				o.delivered = append(o.delivered, x...)
			}
			o.finalErr, o.complete, o.stopped = err, err == nil, err == errWriter
			result = joinOr(".", ws) + "/" + status3(err)
		case "readat":
			o.off, o.n = atoi(op[1]), atoi(op[2])
			p := make([]byte, o.n)
			nn, err := b.ReadAt(p, int64(o.off))
			if err != nil && err != io.EOF {
				o.finalErr = err
				result = "err:" + e.tagOf(err) // (n may be > 0 next to an error: io.ReaderAt allows that)
			} else {
				o.delivered, o.complete = p[:nn], true
				result = status3(err) + ":" + hx.Hex(p[:nn])
			}
		case "reader":
			var sizes []int
			if op[1] != "-" {
				for _, s := range strings.Split(op[1], ".") {
					sizes = append(sizes, atoi(s))
				}
			}
			r := b.ToReader()
			var rs []string
			o.stopped = true
			for _, s := range sizes {
				p := make([]byte, s)
				nn, err := r.Read(p)
				rs = append(rs, hx.Hex(p[:nn])+"/"+status3(err))
				if err == nil || err == io.EOF {
					o.delivered = append(o.delivered, p[:nn]...)
				}
				if err != nil {
					o.stopped = false
					if err == io.EOF {
						o.complete = true
					} else {
						o.finalErr = err
					}
					break
				}
			}
			r.Close()
			result = joinOr(",", rs)
		case "chunks":
			o.off = atoi(op[1])
			r := b.ToChunkReader(int64(o.off), atoi(op[2]))
			var rs []string
			o.stopped = true
			for i := 0; i < atoi(op[3]); i++ {
				chunk, err := r.Read()
				rs = append(rs, hx.Hex(chunk)+"/"+status3(err))
				if err != nil {
					o.stopped = false
					if err == io.EOF {
						o.complete = true
					} else {
						o.finalErr = err
					}
					break
				}
				o.delivered = append(o.delivered, chunk...)
			}
			r.Close()
			result = joinOr(",", rs)
		case "xreadat": // oracle-only: negative offset
			p := make([]byte, atoi(op[2]))
			nn, err := b.ReadAt(p, int64(atoi(op[1])))
			o.finalErr = err
			if err == nil || err == io.EOF {
				o.finalErr = errors.New("negative offset accepted")
			}
			result = fmt.Sprintf("%d/%s", nn, status3(err))
		case "xchunks": // oracle-only: negative offset
			r := b.ToChunkReader(int64(atoi(op[1])), atoi(op[2]))
			_, err := r.Read()
			r.Close()
			o.finalErr = err
			if err == nil || err == io.EOF {
				o.finalErr = errors.New("negative offset accepted")
			}
			result = status3(err)
		case "discard":
			b.Discard()
			o.stopped = true
			result = "ok"
		case "size":
			n, err := b.GetSizeBytes()
			b.Discard()
			o.stopped = true
			if err != nil {
				result = "err:" + e.tagOf(err)
			} else {
				result = fmt.Sprintf("ok:%d", n)
			}
		default:
			result = "bad-op"
		}
	}()
	if e.clones > 0 {
		waited := make(chan struct{})
		go func() { e.wg.Wait(); close(waited) }()
		timer := time.NewTimer(5 * time.Second)
		select {
		case <-waited:
			timer.Stop()
		case <-timer.C:
			o.panicked = "the other half of a cloned buffer never finished (deadlock)"
		}
		e.mu.Lock()
		if e.partner != "" && o.panicked == "" {
			o.panicked = "other clone half: " + e.partner
		}
		e.mu.Unlock()
	}
	if o.panicked != "" {
		result = "panic"
	}
	var log []string
	for _, err := range h.log {
		log = append(log, e.tagOf(err))
	}
	o.reply = fmt.Sprintf("%s log=%s done=%d", result, joinOr(",", log), h.done)
	return o
}

// ---------------------------------------------------------------- the oracle: C16 stated on observed behaviour

// trusted: every validated byte slice buffer of the case holds the digest's bytes (that is what
// "validated" promises); only then can the outcome be held against the digest.
func (c caseSpec) trusted() bool {
	if len(c.d) != c.size {
		return false
	}
	for _, b := range c.allBufs() {
		if (b.kind == 'B' || b.kind == 'A') && !bytes.Equal(b.data, c.d) {
			return false
		}
	}
	return true
}

// consistent: every source holds (a prefix of) the right bytes; failures are its only defect.
func (c caseSpec) consistent() bool {
	if !c.trusted() {
		return false
	}
	for _, b := range c.allBufs() {
		var all []byte
		switch b.kind {
		case 'S':
			all = b.data
		case 'C', 'R', 'K', 'V':
			for _, it := range b.items {
				if it.fail {
					break
				}
				all = append(all, it.data...)
			}
		}
		if !bytes.HasPrefix(c.d, all) {
			return false
		}
	}
	return true
}

// sound: consistent, and a source that never fails holds the whole object. Then every stitched
// stream is the object itself, so no size/checksum complaint is justified.
func (c caseSpec) sound() bool {
	if !c.consistent() {
		return false
	}
	for _, b := range c.allBufs() {
		n := 0
		switch b.kind {
		case 'S':
			n = len(b.data)
		case 'C', 'R', 'K', 'V':
			if _, fails := firstFail(b); fails {
				continue
			}
			for _, it := range b.items {
				n += len(it.data)
			}
		default:
			continue
		}
		if n != len(c.d) {
			return false
		}
	}
	return true
}

func firstFail(b bufSpec) (int, bool) {
	for _, it := range b.items {
		if it.fail {
			return it.k, true
		}
	}
	return 0, false
}

// failTags: the error values the handler of a stacked buffer may decide on.
func failTags(b bufSpec) map[int]bool {
	res := map[int]bool{}
	for _, r := range b.hin {
		if r.kind == 'F' {
			res[r.k] = true
		}
	}
	return res
}

// checkHandler: Done exactly once; every error offered belongs to the buffer in use at that
// time, one per buffer; no call after an answer that is not a replacement.
func checkHandler(e *env, h *handler, who string) (string, string) {
	if h.done != 1 {
		return "error handler was not told exactly once that the buffer is finished", fmt.Sprintf("%s: Done called %d times", who, h.done)
	}
	cur := h.base
	for i, err := range h.log {
		k, isTag := e.rev[err]
		bad := false
		switch cur.kind {
		case 'E':
			bad = !isTag || k != cur.k
		case 'C', 'R', 'K', 'V':
			fk, has := firstFail(cur)
			bad = isTag && (!has || fk != k)
		case 'A':
			bad = isTag && !(cur.failAt >= 0 && k == cur.k)
		case 'W':
			// a stacked buffer yields its own handler's decision, never a raw error from below
			bad = isTag && !failTags(cur)[k]
		default:
			bad = isTag
		}
		if bad {
			return "handler was offered an error that is not the error of the buffer in use", fmt.Sprintf("%s, call %d: got %s, buffer %s", who, i, e.tagOf(err), cur)
		}
		if (err == errExhausted && cur.kind != 'W') || err == errWriter || err == io.EOF {
			return "handler was offered an error no buffer produced", fmt.Sprintf("%s, call %d: %s", who, i, e.tagOf(err))
		}
		if i < len(h.resps) && h.resps[i].kind != 'F' {
			cur = h.resps[i]
		} else if i != len(h.log)-1 {
			return "handler was called again after it returned an error", fmt.Sprintf("%s: %d calls, answer %d was an error", who, len(h.log), i)
		}
	}
	return "", ""
}

// oracle returns the violated statement ("" = none) and a detail.
func oracle(c caseSpec, o obs) (string, string) {
	h, e := o.h, o.e
	if o.panicked != "" {
		return "operation on a buffer with an error handler panicked", o.panicked
	}
	if a, ok := c.handlerlessA(); ok && o.finalErr != nil {
		if k, isTag := e.rev[o.finalErr]; isTag && k == a.k {
			offered := false
			for _, err := range h.log {
				offered = offered || err == o.finalErr
			}
			if !offered {
				return whatF15, fmt.Sprintf("%s failed with t%d; OnError calls: %d, Done calls: %d, consumer got t%d", a, a.k, len(h.log), h.done, k)
			}
		}
	}
	if w, d := checkHandler(e, h, "the handler"); w != "" {
		return w, d
	}
	for i, ih := range e.inner {
		if w, d := checkHandler(e, ih, fmt.Sprintf("the handler of stacked buffer #%d (%s)", i, ih.base)); w != "" {
			return w, d
		}
	}
	// every failure a source reported is offered exactly once, in order (unless the consumer stopped first)
	seen := map[int]int{}
	var logTags []int
	allLogs := append([]error{}, h.log...)
	for _, ih := range e.inner {
		allLogs = append(allLogs, ih.log...)
	}
	for _, err := range allLogs {
		if k, ok := e.rev[err]; ok {
			seen[k]++
			logTags = append(logTags, k)
		}
	}
	for k, n := range seen {
		if n > 1 {
			return "an error was offered to the handler more than once", fmt.Sprintf("t%d offered %d times", k, n)
		}
	}
	handlerDecided := false // the handler's last answer was an error: that error is the outcome
	var handlerErr error
	if n := len(h.log); n > 0 {
		if n > len(c.resps) {
			handlerDecided, handlerErr = true, errExhausted
		} else if c.resps[n-1].kind == 'F' {
			handlerDecided, handlerErr = true, e.errOf(c.resps[n-1].k)
		}
	}
	integrity := o.finalErr != nil && !handlerDecided
	if !o.stopped && !integrity && !c.hasKind('V') {
		var srcTags []int
		for _, k := range logTags {
			for _, m := range e.emitted {
				if m == k {
					srcTags = append(srcTags, k)
				}
			}
		}
		if len(e.inner) > 0 {
			// stacked handlers: each failure is offered to exactly one handler (order is per handler)
			sort.Ints(srcTags)
			em := append([]int{}, e.emitted...)
			sort.Ints(em)
			if fmt.Sprint(srcTags) != fmt.Sprint(em) {
				return "a read failure of an underlying buffer was not offered to a handler exactly once",
					fmt.Sprintf("sources reported %v, handlers saw %v", e.emitted, logTags)
			}
		} else if fmt.Sprint(srcTags) != fmt.Sprint(e.emitted) {
			return "a read failure of an underlying buffer was not offered to the handler exactly once in order",
				fmt.Sprintf("sources reported %v, handler saw %v", e.emitted, logTags)
		}
	}
	// an error the handler returns is what the consumer gets
	opKind := strings.SplitN(c.op, ":", 2)[0]
	consuming := opKind != "discard" && opKind != "size"
	if strings.HasPrefix(opKind, "x") {
		if c.hasKind('A') {
			// a validated ReaderAt buffer passes ReadAt to its ReaderAt (io.SectionReader answers a
			// negative offset with io.EOF): nothing C16 can say about it
			return "", ""
		}
		if o.finalErr != nil && o.finalErr.Error() == "negative offset accepted" {
			return "negative offset was not rejected", c.op
		}
		// the outcome must be an error: the handler's decision or an InvalidArgument complaint
		if !handlerDecided && status.Code(o.finalErr) != codes.InvalidArgument {
			return "negative offset was not answered with InvalidArgument or the handler's error", fmt.Sprint(o.finalErr)
		}
		return "", ""
	}
	if handlerDecided && consuming && len(h.log) > 0 {
		// (one exception, not a C16 matter: a reader that hands out more bytes than the digest allows
		// together with its failure is reported as "too big" by the validating layer above the handler)
		masked := !c.consistent() && o.finalErr != nil && e.tagOf(o.finalErr) == "toobig"
		if o.finalErr != handlerErr && !(o.stopped && o.finalErr == nil) && !masked {
			return "the error returned by the handler is not what the consumer got",
				fmt.Sprintf("handler returned %s, consumer got %v (complete=%v)", e.tagOf(handlerErr), o.finalErr, o.complete)
		}
	}
	if o.finalErr != nil {
		if _, isTag := e.rev[o.finalErr]; (isTag || o.finalErr == errExhausted) && o.finalErr != handlerErr {
			return "consumer got a raw error of an underlying buffer instead of the handler's decision", e.tagOf(o.finalErr)
		}
	}
	// resuming at a wrong offset shows up as a spurious integrity error when all sources are fine
	if c.sound() {
		for _, err := range append(append([]error{}, allLogs...), o.finalErr) {
			if err == nil {
				continue
			}
			if t := e.tagOf(err); strings.HasPrefix(t, "size:") || t == "toobig" || t == "hash" {
				return "stream stitched from intact buffers was rejected as corrupt (wrong resume offset)",
					fmt.Sprintf("%s reported although every buffer holds the right bytes", t)
			}
		}
	}
	// exactly once, in order; validated across the parts
	looseReadAt := false // ReadAt of a validated ReaderAt buffer is not bounded by the object's size
	if opKind == "readat" {
		if c.nested() {
			for _, b := range c.allBufs() {
				looseReadAt = looseReadAt || (b.kind == 'A' && len(b.suf) > 0)
			}
		} else {
			// the buffer that answered: the base, or the handler's last replacement
			last := c.base
			if n := len(h.log); n > 0 && n <= len(c.resps) && c.resps[n-1].kind != 'F' {
				last = c.resps[n-1]
			}
			looseReadAt = last.kind == 'A' && len(last.suf) > 0
		}
	}
	if c.trusted() && consuming && !looseReadAt {
		want := c.d
		if o.off <= len(want) {
			want = want[o.off:]
		} else {
			want = nil
		}
		if o.n >= 0 && o.n < len(want) {
			want = want[:o.n]
		}
		if o.complete && !bytes.Equal(o.delivered, want) {
			return "operation completed but the delivered bytes are not the object's bytes from the start offset",
				fmt.Sprintf("delivered %s, want %s", hx.Hex(o.delivered), hx.Hex(want))
		}
		if c.consistent() && !bytes.HasPrefix(want, o.delivered) {
			return "bytes were duplicated or skipped when resuming on a replacement buffer",
				fmt.Sprintf("delivered %s, object from offset %d is %s", hx.Hex(o.delivered), o.off, hx.Hex(want))
		}
	}
	return "", ""
}

// ---------------------------------------------------------------- generators

func seqBytes(n int) []byte {
	b := make([]byte, n)
	for i := range b {
		b[i] = byte(i + 1)
	}
	return b
}

// compositions of d into consecutive non-empty chunks
func compositions(d []byte) [][][]byte {
	if len(d) == 0 {
		return [][][]byte{{}}
	}
	var res [][][]byte
	for first := 1; first <= len(d); first++ {
		for _, rest := range compositions(d[first:]) {
			res = append(res, append([][]byte{d[:first]}, rest...))
		}
	}
	return res
}

func uniform(d []byte, m int) [][]byte {
	var res [][]byte
	for len(d) > m {
		res = append(res, d[:m])
		d = d[m:]
	}
	if len(d) > 0 {
		res = append(res, d)
	}
	return res
}

// script with a failure after failPos bytes (cutting a chunk if needed); failPos < 0 = none
func scriptOf(chunks [][]byte, failPos, tag int) []item {
	var items []item
	pos := 0
	placed := failPos < 0
	for _, c := range chunks {
		if !placed && failPos < pos+len(c) {
			if failPos > pos {
				items = append(items, item{data: c[:failPos-pos]})
			}
			items = append(items, item{fail: true, k: tag})
			items = append(items, item{data: c[failPos-pos:]})
			placed = true
		} else {
			items = append(items, item{data: c})
		}
		pos += len(c)
	}
	if !placed {
		items = append(items, item{fail: true, k: tag})
	}
	return items
}

func opsFor(L int, full bool) []string {
	ops := []string{fmt.Sprintf("slice:%d", L+3), "writer:-", "discard", "size",
		fmt.Sprintf("reader:%s", strings.TrimSuffix(strings.Repeat("1.", L+4), ".")),
		fmt.Sprintf("reader:%d.%d.%d", L+3, L+3, L+3),
		fmt.Sprintf("reader:2.2.2.2.2.2.2"),
		"reader:1.2", // early close
		fmt.Sprintf("chunks:0:1:99"), fmt.Sprintf("chunks:0:%d:99", L+2),
		fmt.Sprintf("chunks:%d:2:99", L), fmt.Sprintf("chunks:%d:1:99", L+1),
		"chunks:0:2:1", // early close
		fmt.Sprintf("readat:0:%d", L), fmt.Sprintf("readat:%d:2", L), "readat:0:0",
		"writer:0", "writer:1",
		"xreadat:-1:2", "xchunks:-1:2",
	}
	if L >= 2 {
		ops = append(ops, "chunks:1:2:99", fmt.Sprintf("chunks:%d:3:99", L-1), "chunks:1:1:2",
			fmt.Sprintf("readat:1:%d", L), "readat:1:1", fmt.Sprintf("readat:%d:1", L-1))
	}
	if full {
		ops = append(ops, fmt.Sprintf("slice:%d", L), "slice:0", fmt.Sprintf("readat:%d:1", L+1), fmt.Sprintf("readat:%d:0", L+1),
			"reader:3.1.3.1.3.1", "reader:-", "chunks:0:3:99", "chunks:0:1:0", fmt.Sprintf("readat:0:%d", L+2))
		for off := 2; off < L-1; off++ {
			ops = append(ops, fmt.Sprintf("chunks:%d:2:99", off), fmt.Sprintf("readat:%d:2", off))
		}
	}
	return ops
}

// exhaustive enumerates handler chains over contents of exactly L bytes: the base buffer in
// every chunking with a failure at every position, a first replacement of every kind failing at
// every position, and a second replacement.
func exhaustive(L int, full bool, emit func(c caseSpec)) {
	d := seqBytes(L)
	ops := opsFor(L, full)
	var bases []bufSpec
	for _, comp := range compositions(d) {
		for fp := -1; fp <= L; fp++ {
			// only failure positions on a chunk boundary: every byte position is a boundary of some composition
			pos, boundary := 0, fp <= 0 || fp == L
			for _, c := range comp {
				pos += len(c)
				if pos == fp {
					boundary = true
				}
			}
			if !boundary {
				continue
			}
			for _, kind := range []byte{'C', 'R'} {
				bases = append(bases, bufSpec{kind: kind, items: scriptOf(comp, fp, 1)})
			}
		}
	}
	bases = append(bases, bufSpec{kind: 'A', data: d, suf: bytes.Repeat([]byte{0xee}, L+2), pre: []byte{0xdd}, failAt: -1}, bufSpec{kind: 'A', data: d, failAt: -1})
	bases = append(bases, bufSpec{kind: 'E', k: 1}, bufSpec{kind: 'B', data: d}, bufSpec{kind: 'S', data: d},
		bufSpec{kind: 'S', data: d[:L/2]}, bufSpec{kind: 'C', items: []item{{data: d}, {data: []byte{}}, {fail: true, k: 1}}},
		bufSpec{kind: 'C', items: []item{{data: []byte{}}, {data: d}, {data: []byte{9}}}})
	var firsts [][]bufSpec // first answers (with what follows them)
	seconds := [][]bufSpec{
		{{kind: 'C', items: scriptOf(uniform(d, 1), -1, 0)}},
		{{kind: 'R', items: scriptOf(uniform(d, L+1), -1, 0)}},
		{{kind: 'B', data: d}},
		{{kind: 'F', k: 21}},
		{{kind: 'E', k: 22}, {kind: 'B', data: d}},
		{},
	}
	if !full {
		// the two largest scopes: second answers of one stream kind only (chunk reader), no error buffer
		seconds = [][]bufSpec{seconds[0], seconds[2], seconds[3], seconds[5]}
	}
	for _, kind := range []byte{'C', 'R'} {
		for _, m := range []int{1, 2, L + 1} {
			firsts = append(firsts, []bufSpec{{kind: kind, items: scriptOf(uniform(d, m), -1, 0)}})
			for fp := 0; fp <= L; fp++ {
				for _, s := range seconds {
					firsts = append(firsts, append([]bufSpec{{kind: kind, items: scriptOf(uniform(d, m), fp, 2)}}, s...))
				}
			}
		}
	}
	// cloned buffers as replacements: resumed at the offset where the base failed
	for _, kind := range []byte{'K', 'V'} {
		for _, m := range []int{2, L + 1} {
			if !full && ((kind == 'V' && m == 2) || (kind == 'K' && m != 2)) {
				continue
			}
			firsts = append(firsts, []bufSpec{{kind: kind, items: scriptOf(uniform(d, m), -1, 0)}})
			for fp := 0; fp <= L; fp++ {
				firsts = append(firsts, []bufSpec{{kind: kind, items: scriptOf(uniform(d, m), fp, 2)}, {kind: 'K', items: scriptOf(uniform(d, 1), -1, 0)}})
				if full || kind == 'K' {
					firsts = append(firsts, []bufSpec{{kind: kind, items: scriptOf(uniform(d, m), fp, 2)}, {kind: 'F', k: 21}})
				}
			}
		}
	}
	// validated ReaderAt buffers whose storage continues before and after the object
	other := bytes.Repeat([]byte{0xee}, L+2)
	firsts = append(firsts, []bufSpec{{kind: 'A', data: d, suf: other, pre: []byte{0xdd}, failAt: -1}}, []bufSpec{{kind: 'A', data: d, suf: other[:1], failAt: -1}},
		[]bufSpec{{kind: 'A', data: d, failAt: -1}})
	// ... on a medium that fails part way through the object: ReadAt returns n > 0 and an error
	for fp := 0; fp < L; fp++ {
		for si, sec := range [][]bufSpec{{{kind: 'B', data: d}}, {{kind: 'C', items: scriptOf(uniform(d, 2), -1, 0)}}, {{kind: 'F', k: 21}},
			{{kind: 'A', data: d, suf: other[:2], failAt: -1}}, {}} {
			if !full && (fp+si)%2 == 1 {
				continue
			}
			firsts = append(firsts, append([]bufSpec{{kind: 'A', data: d, suf: other[:fp%3], failAt: fp, k: 2}}, sec...))
		}
	}
	firsts = append(firsts, []bufSpec{{kind: 'B', data: d}}, []bufSpec{{kind: 'S', data: d}}, []bufSpec{{kind: 'F', k: 11}}, []bufSpec{})
	for _, s := range seconds {
		firsts = append(firsts, append([]bufSpec{{kind: 'E', k: 12}}, s...))
		if L > 0 {
			firsts = append(firsts, append([]bufSpec{{kind: 'R', items: []item{{data: d[:L-1]}}}}, s...)) // too short
		}
		firsts = append(firsts, append([]bufSpec{{kind: 'C', items: []item{{data: d}, {data: []byte{7}}}}}, s...)) // too long
	}
	// stacked backends: the first replacement carries an error handler of its own, is resumed at
	// the offset where the base failed and fails again further on
	innerSeconds := [][]bufSpec{
		{{kind: 'C', items: scriptOf(uniform(d, 1), -1, 0)}},
		{{kind: 'R', items: scriptOf(uniform(d, L+1), -1, 0)}, {kind: 'F', k: 32}},
		{{kind: 'F', k: 31}},
		{},
	}
	outerSeconds := [][]bufSpec{{{kind: 'B', data: d}}, {}}
	for _, kind := range []byte{'C', 'R'} {
		for fp := -1; fp <= L; fp++ {
			for _, is := range innerSeconds {
				if fp < 0 && len(is) > 0 {
					continue
				}
				for oi, os := range outerSeconds {
					if !full && len(d) < 5 && (fp+len(is)+oi)%2 == 0 {
						continue // the larger scopes take every other / every third combination
					}
					if !full && len(d) >= 5 && (fp+len(is)+oi)%3 != 0 {
						continue
					}
					w := bufSpec{kind: 'W', inner: &bufSpec{kind: kind, items: scriptOf(uniform(d, 1+(fp+2)%2), fp, 3)}, hin: is}
					firsts = append(firsts, append([]bufSpec{w}, os...))
				}
			}
		}
	}
	// ... and stacked base buffers with a few outer answers
	outerFew := [][]bufSpec{{}, {{kind: 'F', k: 11}}, {{kind: 'B', data: d}}, {{kind: 'C', items: scriptOf(uniform(d, 1), -1, 0)}},
		{{kind: 'W', inner: &bufSpec{kind: 'R', items: scriptOf(uniform(d, 2), L/2, 4)}, hin: []bufSpec{{kind: 'C', items: scriptOf(uniform(d, 1), -1, 0)}}}}}
	for _, kind := range []byte{'C', 'R', 'E'} {
		for fp := -1; fp <= L; fp++ {
			if kind == 'E' && fp >= 0 {
				continue
			}
			for _, is := range innerSeconds {
				inner := bufSpec{kind: kind, k: 1, items: scriptOf(uniform(d, 2), fp, 1)}
				if kind == 'E' {
					inner.items = nil
				}
				w := bufSpec{kind: 'W', inner: &inner, hin: is}
				for _, op := range ops {
					for _, os := range outerFew {
						emit(caseSpec{d: d, size: L, op: op, base: w, resps: os})
					}
				}
			}
		}
	}
	// cloned base buffers with a few outer answers
	for fp := -1; fp <= L; fp++ {
		for _, kind := range []byte{'K', 'V'} {
			if kind == 'V' && !full && fp%2 == 0 {
				continue
			}
			for _, op := range ops {
				for _, os := range outerFew {
					emit(caseSpec{d: d, size: L, op: op, base: bufSpec{kind: kind, items: scriptOf(uniform(d, 2), fp, 1)}, resps: os})
				}
			}
		}
	}
	for bi, base := range bases {
		_, baseFails := firstFail(base)
		baseFails = baseFails || base.kind == 'E' || (base.kind == 'S' && len(base.data) != L)
		for _, op := range ops {
			if !baseFails {
				emit(caseSpec{d: d, size: L, op: op, base: base, resps: []bufSpec{{kind: 'F', k: 11}}})
				continue
			}
			for _, f := range firsts {
				if !full && bi%3 != 0 && len(f) > 0 && (f[0].kind == 'K' || f[0].kind == 'V') {
					continue // cloned replacements (a goroutine each) on every third base at the two largest scopes
				}
				emit(caseSpec{d: d, size: L, op: op, base: base, resps: f})
			}
		}
	}
}

func randomCase(r *hx.Rand) caseSpec {
	L := r.PickInt(0, 1, 2, 3, 5, 8, 13, 21, 40)
	d := r.Bytes(L)
	c := caseSpec{d: d, size: L}
	tag := 0
	nextTag := func() int { tag++; return tag }
	corruptP := r.PickInt(0, 0, 0, 1, 3) // out of 10
	randChunks := func(data []byte) [][]byte {
		var res [][]byte
		for len(data) > 0 {
			n := r.Range(1, 1+len(data)/2+r.Intn(3))
			if n > len(data) {
				n = len(data)
			}
			res = append(res, data[:n])
			data = data[n:]
			if r.Chance(1, 8) {
				res = append(res, []byte{})
			}
		}
		return res
	}
	var randBuf func(mayFail bool) bufSpec
	depth := 0
	allowFailA := r.Chance(1, 40) // rarely as the base buffer (known finding F15)
	randBuf = func(mayFail bool) bufSpec {
		if depth < 2 && r.Chance(1, 6) {
			depth++
			inner := randBuf(true)
			for inner.kind == 'F' {
				inner = randBuf(true)
			}
			w := bufSpec{kind: 'W', inner: &inner}
			for i, n := 0, r.Intn(3); i < n; i++ {
				if r.Chance(1, 6) {
					w.hin = append(w.hin, bufSpec{kind: 'F', k: nextTag()})
				} else {
					w.hin = append(w.hin, randBuf(r.Chance(1, 3)))
				}
			}
			depth--
			return w
		}
		data := append([]byte{}, d...)
		if r.Intn(10) < corruptP {
			switch r.Intn(4) {
			case 0:
				if L > 0 {
					data[r.Intn(L)] ^= 0x40
				}
			case 1:
				if L > 0 {
					data = data[:r.Intn(L)]
				}
			case 2:
				data = append(data, r.Bytes(r.Range(1, 3))...)
			default:
				if L > 1 {
					i := r.Intn(L - 1)
					data[i], data[i+1] = data[i+1], data[i]
				}
			}
		}
		switch x := r.Intn(20); {
		case x < 1:
			return bufSpec{kind: 'E', k: nextTag()}
		case x < 3:
			return bufSpec{kind: 'B', data: d}
		case x < 4:
			return bufSpec{kind: 'S', data: data}
		case x < 6:
			a := bufSpec{kind: 'A', data: d, suf: r.Bytes(r.PickInt(0, 1, L, L+3)), pre: r.Bytes(r.PickInt(0, 0, 2)), failAt: -1}
			if allowFailA && depth == 0 && mayFail && L > 0 && r.Chance(1, 2) {
				a.failAt, a.k = r.Intn(L), nextTag()
			}
			return a
		}
		kind := byte('C')
		switch y := r.Intn(16); {
		case y < 7:
			kind = 'R'
		case y < 10:
			kind = 'K'
		case y < 11:
			kind = 'V'
		}
		fp := -1
		if mayFail && r.Chance(4, 5) {
			fp = r.Intn(len(data) + 1)
		}
		items := scriptOf(randChunks(data), fp, nextTag())
		if r.Chance(1, 6) && len(items) > 0 {
			// a second failure further on (never reached: the reader is replaced after the first)
			items = append(items, item{fail: true, k: nextTag()})
		}
		return bufSpec{kind: kind, items: items}
	}
	c.base = randBuf(true)
	allowFailA = true // (as a base buffer a validated ReaderAt buffer finishes the handler at once)
	nresp := r.PickInt(0, 1, 2, 2, 3, 4)
	for i := 0; i < nresp; i++ {
		if r.Chance(1, 8) {
			c.resps = append(c.resps, bufSpec{kind: 'F', k: nextTag()})
		} else {
			c.resps = append(c.resps, randBuf(i < nresp-1 || r.Chance(1, 3)))
		}
	}
	if r.Chance(1, 25) {
		c.size = L + r.PickInt(-1, 1, 2)
		if c.size < 0 {
			c.size = 0
		}
	}
	sizes := func() string {
		n := r.Range(1, L+4)
		var ws []string
		for i := 0; i < n; i++ {
			ws = append(ws, strconv.Itoa(r.PickInt(1, 1, 2, 3, 5, 8, L+1, L+5)))
		}
		return strings.Join(ws, ".")
	}
	switch r.Intn(10) {
	case 0:
		c.op = fmt.Sprintf("slice:%d", r.PickInt(L+1, L+1, L+10, L, 0))
	case 1:
		c.op = "writer:" + []string{"-", "-", "-", "0", "1", "2"}[r.Intn(6)]
	case 2, 3:
		c.op = fmt.Sprintf("readat:%d:%d", r.Intn(L+2), r.PickInt(0, 1, 2, L/2, L, L+1))
	case 4, 5, 6:
		c.op = "reader:" + sizes()
	case 7, 8:
		c.op = fmt.Sprintf("chunks:%d:%d:%d", r.Intn(L+2), r.PickInt(1, 1, 2, 3, 7, L+1, 100), r.PickInt(0, 1, 2, 3, 999, 999, 999, 999))
	default:
		c.op = []string{"discard", "size"}[r.Intn(2)]
	}
	return c
}

// ---------------------------------------------------------------- shrinking

// variants returns structurally smaller versions of a buffer.
func variants(b bufSpec) []bufSpec {
	var res []bufSpec
	switch b.kind {
	case 'W':
		res = append(res, *b.inner) // without its own handler
		for i := range b.hin {
			nb := b
			nb.hin = append(append([]bufSpec{}, b.hin[:i]...), b.hin[i+1:]...)
			res = append(res, nb)
		}
		for _, v := range variants(*b.inner) {
			nb, vv := b, v
			nb.inner = &vv
			res = append(res, nb)
		}
		for i := range b.hin {
			for _, v := range variants(b.hin[i]) {
				nb := b
				nb.hin = append([]bufSpec{}, b.hin...)
				nb.hin[i] = v
				res = append(res, nb)
			}
		}
	case 'A':
		if b.failAt >= 0 {
			nb := b
			nb.failAt = -1
			res = append(res, nb)
		}
		if len(b.suf) > 0 {
			nb := b
			nb.suf = nil
			res = append(res, nb)
		}
		if len(b.pre) > 0 {
			nb := b
			nb.pre = nil
			res = append(res, nb)
		}
	case 'C', 'R', 'K', 'V':
		if b.kind == 'K' || b.kind == 'V' {
			nb := b
			nb.kind = 'C' // not cloned
			res = append(res, nb)
		}
		for ii := range b.items {
			nb := b
			if ii+1 < len(b.items) && !b.items[ii].fail && !b.items[ii+1].fail {
				// merge two data items
				nb.items = append(append([]item{}, b.items[:ii]...), item{data: append(append([]byte{}, b.items[ii].data...), b.items[ii+1].data...)})
				nb.items = append(nb.items, b.items[ii+2:]...)
			} else if b.items[ii].fail {
				nb.items = append(append([]item{}, b.items[:ii]...), b.items[ii+1:]...)
			} else {
				continue
			}
			res = append(res, nb)
		}
	}
	return res
}

func shrinkCase(c caseSpec, fails func(caseSpec) bool) caseSpec {
	for again := true; again; {
		again = false
		var cands []caseSpec
		for i := range c.resps {
			cand := c
			cand.resps = append(append([]bufSpec{}, c.resps[:i]...), c.resps[i+1:]...)
			cands = append(cands, cand)
		}
		for _, v := range variants(c.base) {
			cand := c
			cand.base = v
			cands = append(cands, cand)
		}
		for i := range c.resps {
			if c.resps[i].kind == 'F' {
				continue
			}
			for _, v := range variants(c.resps[i]) {
				if v.kind == 'F' {
					continue
				}
				cand := c
				cand.resps = append([]bufSpec{}, c.resps...)
				cand.resps[i] = v
				cands = append(cands, cand)
			}
		}
		for _, cand := range cands {
			if fails(cand) {
				c, again = cand, true
				break
			}
		}
	}
	return c
}

// ---------------------------------------------------------------- the test

// oracleOnly: cases the model does not cover (negative offsets, stacked error handlers); they are
// run on the real code and held against the oracle only.
func oracleOnly(c caseSpec) bool {
	return strings.HasPrefix(c.op, "x") || c.nested() || c.hasKind('V') || c.failingA()
}

// handlerlessFailingA: the buffer WithErrorHandler ends up with (the base, or the replacement the
// handler gave for a base in a known error state) is a validated ReaderAt buffer on a failing
// medium. validatedReaderBuffer.applyErrorHandler finishes the handler at once ("TODO: Add support
// for actually respecting the error handler ... cannot realistically fail"), so its failure reaches
// the consumer unhandled: known finding F15, reported with its own sentence only.
func (c caseSpec) handlerlessFailingA() bool { _, ok := c.handlerlessA(); return ok }

func (c caseSpec) handlerlessA() (bufSpec, bool) {
	errLike := func(b bufSpec) bool {
		return b.kind == 'E' || (b.kind == 'S' && (len(b.data) != c.size || !bytes.Equal(b.data, c.d)))
	}
	cur, i := c.base, 0
	for cur.kind == 'W' {
		cur = *cur.inner
	}
	for errLike(cur) && i < len(c.resps) && c.resps[i].kind != 'F' {
		cur = c.resps[i]
		i++
		for cur.kind == 'W' {
			cur = *cur.inner
		}
	}
	return cur, cur.kind == 'A' && cur.failAt >= 0
}

// whatF15 is the sentence of known finding F15 (known_findings.json matches on it).
const whatF15 = "an I/O error of a validated ReaderAt buffer reached the consumer without being offered to the error handler"

// failingA: some validated ReaderAt buffer of the case sits on a failing medium (not modelled).
func (c caseSpec) failingA() bool {
	for _, b := range c.allBufs() {
		if b.kind == 'A' && b.failAt >= 0 {
			return true
		}
	}
	return false
}

func (c caseSpec) hasKind(k byte) bool {
	for _, b := range c.allBufs() {
		if b.kind == k {
			return true
		}
	}
	return false
}

type pending struct {
	name string
	c    caseSpec
	o    obs
}

func TestC16(t *testing.T) {
	run := hx.NewRun("C16")
	defer run.Finish(t)
	// most of the run time would otherwise go into collecting the 64 KiB chunk buffers the real
	// code allocates per Read
	defer debug.SetGCPercent(debug.SetGCPercent(800))
	model, err := hx.StartModel()
	if err != nil {
		t.Fatalf("start model: %v", err)
	}
	defer model.Close()
	run.HasModel = model != nil
	run.SetRule("handler chains (base buffer + scripted ErrorHandler answers) x one consuming operation; a case is non-trivial when " +
		"the handler is consulted at least once and a replacement buffer is actually read; distinct by case line")

	modelReply := func(c caseSpec) string {
		if model == nil {
			return ""
		}
		return model.Step(c.line())
	}
	report := func(p pending, mreply string) {
		what, detail := oracle(p.c, p.o)
		disagree := model != nil && mreply != p.o.reply
		if what == "" && !disagree {
			return
		}
		// shrink
		small := shrinkCase(p.c, func(c caseSpec) bool {
			o := runReal(c)
			if what != "" {
				w, _ := oracle(c, o)
				return w == what
			}
			return modelReply(c) != o.reply
		})
		o := runReal(small)
		mr := modelReply(small)
		if what != "" {
			_, detail = oracle(small, o)
			run.Report(hx.Finding{Kind: "oracle", What: what, Detail: detail, Case: p.name + "/shrunk",
				Script: []string{small.line()}, Impl: []string{o.reply}, Model: []string{mr}})
		} else {
			run.Report(hx.Finding{Kind: "disagreement", What: "model/implementation differ",
				Detail: fmt.Sprintf("%q: impl=%q model=%q", small.line(), o.reply, mr), Case: p.name + "/shrunk",
				Script: []string{small.line()}, Impl: []string{o.reply}, Model: []string{mr}})
		}
	}

	f15Reported := 0
	var batch []pending
	flush := func() {
		if len(batch) == 0 {
			return
		}
		var replies []string
		if model != nil {
			lines := make([]string, len(batch))
			for i, p := range batch {
				lines[i] = p.c.line()
			}
			replies = model.Batch(lines)
			run.Compared(len(replies))
		}
		for i, p := range batch {
			mr := ""
			if model != nil {
				mr = replies[i]
			}
			if run.Findings() < 20 {
				report(p, mr)
			}
		}
		batch = batch[:0]
	}
	handle := func(name string, c caseSpec) {
		if c.handlerlessFailingA() {
			run.Count("shape:handlerless-failing-readerat")
		}
		if os.Getenv("C16_DEBUG") != "" && c.nested() {
			fmt.Fprintln(os.Stderr, "CASE", c.line())
		}
		o := runReal(c)
		nontrivial := len(o.h.log) > 0 && o.e.opens > 1
		run.Case([]string{c.line()}, nontrivial, model != nil && !oracleOnly(c))
		run.Count("op:" + strings.SplitN(c.op, ":", 2)[0])
		run.Count(fmt.Sprintf("base:%c", c.base.kind))
		n := len(o.h.log)
		if n > 3 {
			n = 3
		}
		run.Count(fmt.Sprintf("onerror-calls:%d%s", n, map[bool]string{true: "+", false: ""}[n == 3]))
		switch {
		case o.panicked != "":
			run.Count("outcome:panic")
		case o.complete:
			run.Count("outcome:complete")
		case o.finalErr != nil:
			run.Count("outcome:error")
		default:
			run.Count("outcome:stopped-early")
		}
		if oracleOnly(c) {
			run.Count("oracle-only")
			if c.nested() {
				run.Count("stacked-handlers")
			}
			if what, _ := oracle(c, o); what != "" && run.Findings() < 20 {
				if what == whatF15 {
					run.Count("known:F15")
					if f15Reported >= 2 {
						return
					}
					f15Reported++
				}
				small := shrinkCase(c, func(cc caseSpec) bool {
					w, _ := oracle(cc, runReal(cc))
					return w == what
				})
				so := runReal(small)
				_, detail := oracle(small, so)
				run.Report(hx.Finding{Kind: "oracle", What: what, Detail: detail, Case: name + "/shrunk", Script: []string{small.line()}, Impl: []string{so.reply}})
			}
			return
		}
		batch = append(batch, pending{name, c, o})
		if len(batch) >= 4000 {
			flush()
		}
	}

	if name, script := run.ReplayScript(); script != nil {
		for _, line := range script {
			c, ok := parseLine(line)
			if !ok {
				t.Logf("replay %s: cannot parse %q", name, line)
				continue
			}
			o := runReal(c)
			what, detail := oracle(c, o)
			mr := modelReply(c)
			t.Logf("case:  %s", line)
			t.Logf("impl:  %s", o.reply)
			t.Logf("model: %s", mr)
			t.Logf("replay %s: oracle=%q %s agree=%v", name, what, detail, model == nil || mr == o.reply)
			if what != "" {
				run.Report(hx.Finding{Kind: "oracle", What: what, Detail: detail, Case: name, Script: []string{line}, Impl: []string{o.reply}, Model: []string{mr}})
			} else if model != nil && mr != o.reply && !oracleOnly(c) {
				run.Report(hx.Finding{Kind: "disagreement", What: "model/implementation differ", Detail: fmt.Sprintf("impl=%q model=%q", o.reply, mr),
					Case: name, Script: []string{line}, Impl: []string{o.reply}, Model: []string{mr}})
			}
		}
		return
	}
	for name, script := range run.CorpusScripts() {
		for _, line := range script {
			if c, ok := parseLine(line); ok {
				handle("corpus/"+name, c)
			}
		}
	}
	flush()

	// the shape of known finding F15: a validated ReaderAt buffer on a failing medium as the buffer
	// WithErrorHandler ends up with
	for i, bufs := range []string{"A:0102030405/eeee/dd/2!1", "E:1 A:0102030405/eeee/dd/2!2", "A:0102030405/-/-/0!1 B:0102030405"} {
		for j, op := range []string{"slice:9", "reader:2.2.2.2", "chunks:0:2:99", "chunks:1:9:99", "readat:0:5", "readat:1:3", "writer:-"} {
			if c, ok := parseLine("run 0102030405 5 " + op + " " + bufs); ok {
				handle(fmt.Sprintf("f15/%d-%d", i, j), c)
			}
		}
	}
	flush()

	// exhaustive small scopes
	maxL := run.Scale(5, 7)
	nExh := 0
	for L := 0; L <= maxL && run.Findings() < 20; L++ {
		full := L <= maxL-2
		exhaustive(L, full, func(c caseSpec) {
			if run.Findings() < 20 {
				nExh++
				handle(fmt.Sprintf("exh/L%d/%d", L, nExh), c)
			}
		})
	}
	flush()
	run.Extra("exhaustive_cases", nExh)
	run.Extra("exhaustive_max_content_bytes", maxL)
	run.SetExhaustive(true)

	// random longer ones
	n := run.Scale(60000, 1500000)
	for i := 0; i < n && run.Findings() < 20; i++ {
		r := hx.NewRand(run.Seed, "C16", i)
		handle(fmt.Sprintf("seed%d/case%d", run.Seed, i), randomCase(r))
	}
	flush()
}
