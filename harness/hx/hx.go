// Package hx is the shared plumbing of the correspondence harness: a
// replayable PRNG, the line-protocol client of the compiled Lean model
// drivers, and the collector that turns a run into the JSON the check script
// classifies and writes out as evidence.
package hx

import (
	"bufio"
	"crypto/sha256"
	"encoding/hex"
	"encoding/json"
	"fmt"
	"os"
	"os/exec"
	"sort"
	"strconv"
	"strings"
	"sync"
	"testing"
	"time"
)

// ---------------------------------------------------------------- PRNG

// Rand is splitmix64. Every random choice of a case derives from
// (VERIF_SEED, property id, case index), so a case replays from those alone.
type Rand struct{ s uint64 }

func mix(z uint64) uint64 {
	z += 0x9e3779b97f4a7c15
	z = (z ^ (z >> 30)) * 0xbf58476d1ce4e5b9
	z = (z ^ (z >> 27)) * 0x94d049bb133111eb
	return z ^ (z >> 31)
}

// NewRand derives a generator from the run seed, a label and an index.
func NewRand(seed uint64, label string, index int) *Rand {
	h := sha256.Sum256([]byte(label))
	var l uint64
	for i := 0; i < 8; i++ {
		l = l<<8 | uint64(h[i])
	}
	return &Rand{s: mix(seed) ^ mix(l) ^ mix(uint64(index)*0x9e3779b97f4a7c15+1)}
}

func (r *Rand) Uint64() uint64 {
	r.s += 0x9e3779b97f4a7c15
	z := r.s
	z = (z ^ (z >> 30)) * 0xbf58476d1ce4e5b9
	z = (z ^ (z >> 27)) * 0x94d049bb133111eb
	return z ^ (z >> 31)
}

// Intn returns a value in [0, n). n must be > 0.
func (r *Rand) Intn(n int) int { return int(r.Uint64() % uint64(n)) }

// Range returns a value in [lo, hi].
func (r *Rand) Range(lo, hi int) int { return lo + r.Intn(hi-lo+1) }

// Chance is true with probability num/den.
func (r *Rand) Chance(num, den int) bool { return r.Intn(den) < num }

// Bytes returns n pseudo-random bytes.
func (r *Rand) Bytes(n int) []byte {
	b := make([]byte, n)
	for i := range b {
		b[i] = byte(r.Uint64())
	}
	return b
}

// PickInt picks one of the values.
func (r *Rand) PickInt(vs ...int) int { return vs[r.Intn(len(vs))] }

// Perm returns a permutation of 0..n-1.
func (r *Rand) Perm(n int) []int {
	p := make([]int, n)
	for i := range p {
		p[i] = i
	}
	for i := n - 1; i > 0; i-- {
		j := r.Intn(i + 1)
		p[i], p[j] = p[j], p[i]
	}
	return p
}

// ---------------------------------------------------------------- model client

// Model talks to one compiled Lean driver over stdin/stdout: one request
// line, one reply line.
type Model struct {
	cmd *exec.Cmd
	in  *bufio.Writer
	out *bufio.Reader
	mu  sync.Mutex
}

// StartModel starts the driver named by VERIF_MODEL_BIN. It returns nil when
// the variable is empty (oracle-only mode: the Lean side did not build).
func StartModel() (*Model, error) {
	bin := os.Getenv("VERIF_MODEL_BIN")
	if bin == "" {
		return nil, nil
	}
	cmd := exec.Command(bin)
	stdin, err := cmd.StdinPipe()
	if err != nil {
		return nil, err
	}
	stdout, err := cmd.StdoutPipe()
	if err != nil {
		return nil, err
	}
	cmd.Stderr = os.Stderr
	if err := cmd.Start(); err != nil {
		return nil, err
	}
	return &Model{cmd: cmd, in: bufio.NewWriterSize(stdin, 1<<16), out: bufio.NewReaderSize(stdout, 1<<16)}, nil
}

// Step sends one line and returns the reply line.
func (m *Model) Step(line string) string {
	m.mu.Lock()
	defer m.mu.Unlock()
	if strings.ContainsAny(line, "\n\r") {
		return "harness-error:newline-in-request"
	}
	m.in.WriteString(line)
	m.in.WriteByte('\n')
	if err := m.in.Flush(); err != nil {
		return "model-died:" + err.Error()
	}
	reply, err := m.out.ReadString('\n')
	if err != nil {
		return "model-died:" + err.Error()
	}
	return strings.TrimRight(reply, "\r\n")
}

// Batch sends all lines, then reads all replies (much faster than Step for
// non-interactive cases).
func (m *Model) Batch(lines []string) []string {
	m.mu.Lock()
	defer m.mu.Unlock()
	replies := make([]string, 0, len(lines))
	done := make(chan struct{})
	go func() {
		defer close(done)
		for range lines {
			reply, err := m.out.ReadString('\n')
			if err != nil {
				replies = append(replies, "model-died:"+err.Error())
				return
			}
			replies = append(replies, strings.TrimRight(reply, "\r\n"))
		}
	}()
	for _, l := range lines {
		m.in.WriteString(l)
		m.in.WriteByte('\n')
	}
	m.in.Flush()
	<-done
	for len(replies) < len(lines) {
		replies = append(replies, "model-died")
	}
	return replies
}

func (m *Model) Close() {
	if m == nil {
		return
	}
	m.cmd.Process.Kill()
	m.cmd.Wait()
}

// ---------------------------------------------------------------- run / results

// Finding is one concrete failing case, in replayable form.
type Finding struct {
	// Kind is "oracle" (the property statement fails on the implementation's
	// observed behaviour) or "disagreement" (model and implementation differ).
	Kind string `json:"kind"`
	// What is a stable, short identification of what fails; it is what
	// known_findings.json entries are matched against.
	What   string   `json:"what"`
	Detail string   `json:"detail"`
	Case   string   `json:"case"`
	Script []string `json:"script"`
	Impl   []string `json:"impl,omitempty"`
	Model  []string `json:"model,omitempty"`
}

// Run collects what a harness run covered.
type Run struct {
	Property string
	Seed     uint64
	Tier     string
	Replay   string
	HasModel bool

	mu          sync.Mutex
	evaluations int
	distinct    map[string]bool
	nontrivial  int
	validated   int
	compared    int
	hist        map[string]int
	samples     []interface{}
	findings    []Finding
	rule        string
	exhaustive  bool
	start       time.Time
	extra       map[string]interface{}
}

// NewRun reads VERIF_SEED / VERIF_TIER / VERIF_REPLAY.
func NewRun(property string) *Run {
	seed := uint64(1)
	if s := os.Getenv("VERIF_SEED"); s != "" {
		if v, err := strconv.ParseUint(s, 10, 64); err == nil {
			seed = v
		}
	}
	tier := os.Getenv("VERIF_TIER")
	if tier != "thorough" {
		tier = "quick"
	}
	return &Run{Property: property, Seed: seed, Tier: tier, Replay: os.Getenv("VERIF_REPLAY"),
		distinct: map[string]bool{}, hist: map[string]int{}, start: time.Now(), extra: map[string]interface{}{},
		findings: []Finding{}, samples: []interface{}{}}
}

func (r *Run) Thorough() bool { return r.Tier == "thorough" }

// Scale picks the case count for the tier.
func (r *Run) Scale(quick, thorough int) int {
	if r.Thorough() {
		return thorough
	}
	return quick
}

func (r *Run) SetRule(rule string)  { r.rule = rule }
func (r *Run) SetExhaustive(b bool) { r.exhaustive = b }
func (r *Run) Extra(k string, v interface{}) {
	r.mu.Lock()
	r.extra[k] = v
	r.mu.Unlock()
}

// Count bumps a histogram bucket of the input distribution.
func (r *Run) Count(bucket string) { r.CountN(bucket, 1) }

func (r *Run) CountN(bucket string, n int) {
	r.mu.Lock()
	r.hist[bucket] += n
	r.mu.Unlock()
}

// Case records one explored case. script identifies it (for distinctness),
// nontrivial is the harness's rule applied to it, validated says the model
// was run against the implementation on it.
func (r *Run) Case(script []string, nontrivial, validated bool) {
	h := sha256.Sum256([]byte(strings.Join(script, "\n")))
	k := hex.EncodeToString(h[:8])
	r.mu.Lock()
	r.evaluations++
	if !r.distinct[k] {
		r.distinct[k] = true
		if nontrivial {
			r.nontrivial++
		}
		if len(r.samples) < 3 && nontrivial {
			s := script
			if len(s) > 60 {
				s = append(append([]string{}, s[:60]...), fmt.Sprintf("... (%d more lines)", len(script)-60))
			}
			r.samples = append(r.samples, s)
		}
	}
	if validated {
		r.validated++
	}
	r.mu.Unlock()
}

// Compared counts individual reply comparisons between model and implementation.
func (r *Run) Compared(n int) {
	r.mu.Lock()
	r.compared += n
	r.mu.Unlock()
}

// Report records a failing case.
func (r *Run) Report(f Finding) {
	r.mu.Lock()
	if len(r.findings) < 200 {
		r.findings = append(r.findings, f)
	}
	r.mu.Unlock()
}

func (r *Run) Findings() int {
	r.mu.Lock()
	defer r.mu.Unlock()
	return len(r.findings)
}

// Finish writes the result file named by VERIF_OUT.
func (r *Run) Finish(t testing.TB) {
	r.mu.Lock()
	defer r.mu.Unlock()
	keys := make([]string, 0, len(r.hist))
	for k := range r.hist {
		keys = append(keys, k)
	}
	sort.Strings(keys)
	res := map[string]interface{}{
		"property":                      r.Property,
		"seed":                          r.Seed,
		"tier":                          r.Tier,
		"has_model":                     r.HasModel,
		"evaluations":                   r.evaluations,
		"distinct_nontrivial":           r.nontrivial,
		"distinct":                      len(r.distinct),
		"traces_validated_against_impl": r.validated,
		"disagreements_checked":         r.compared,
		"rule":                          r.rule,
		"exhaustive":                    r.exhaustive,
		"distribution":                  r.hist,
		"samples":                       r.samples,
		"findings":                      r.findings,
		"wall_s":                        time.Since(r.start).Seconds(),
		"extra":                         r.extra,
	}
	out := os.Getenv("VERIF_OUT")
	if out == "" {
		b, _ := json.MarshalIndent(res, "", " ")
		t.Logf("result: %s", b)
		return
	}
	b, err := json.MarshalIndent(res, "", " ")
	if err != nil {
		t.Fatalf("marshal result: %v", err)
	}
	if err := os.WriteFile(out, b, 0o644); err != nil {
		t.Fatalf("write result: %v", err)
	}
}

// ReplayScript loads the script of a replay file (as written by the check
// script: a JSON object with a "script" array), or nil.
func (r *Run) ReplayScript() (caseName string, script []string) {
	if r.Replay == "" {
		return "", nil
	}
	b, err := os.ReadFile(r.Replay)
	if err != nil {
		return "", nil
	}
	var f struct {
		Case   string   `json:"case"`
		Script []string `json:"script"`
	}
	if json.Unmarshal(b, &f) != nil {
		return "", nil
	}
	return f.Case, f.Script
}

// CorpusScripts loads the minimised past failures of this property
// (/verif/corpus/<id>/*.json, each {"case":..., "script":[...]}).
func (r *Run) CorpusScripts() map[string][]string {
	dir := os.Getenv("VERIF_CORPUS")
	res := map[string][]string{}
	if dir == "" {
		return res
	}
	ents, err := os.ReadDir(dir)
	if err != nil {
		return res
	}
	for _, e := range ents {
		if !strings.HasSuffix(e.Name(), ".json") {
			continue
		}
		b, err := os.ReadFile(dir + "/" + e.Name())
		if err != nil {
			continue
		}
		var f struct {
			Script []string `json:"script"`
		}
		if json.Unmarshal(b, &f) == nil && len(f.Script) > 0 {
			res[e.Name()] = f.Script
		}
	}
	return res
}

// Diff compares the two reply streams of a case and reports the first
// difference as a disagreement finding. It returns true when they agree.
func (r *Run) Diff(caseName string, script, impl, model []string) bool {
	n := len(impl)
	if len(model) < n {
		n = len(model)
	}
	r.Compared(n)
	for i := 0; i < n; i++ {
		if impl[i] != model[i] {
			line := ""
			if i < len(script) {
				line = script[i]
			}
			r.Report(Finding{Kind: "disagreement", What: "model/implementation differ",
				Detail: fmt.Sprintf("step %d %q: impl=%q model=%q", i, line, impl[i], model[i]),
				Case:   caseName, Script: script, Impl: impl, Model: model})
			return false
		}
	}
	if len(impl) != len(model) {
		r.Report(Finding{Kind: "disagreement", What: "model/implementation differ",
			Detail: fmt.Sprintf("reply counts differ: impl=%d model=%d", len(impl), len(model)),
			Case:   caseName, Script: script, Impl: impl, Model: model})
		return false
	}
	return true
}

// Hex renders bytes for protocol lines ("-" for empty).
func Hex(b []byte) string {
	if len(b) == 0 {
		return "-"
	}
	return hex.EncodeToString(b)
}

// Shrink is delta debugging on a script: it returns a locally minimal
// sub-sequence (keeping the first keep lines, e.g. an init line) on which
// fails still returns true.
func Shrink(script []string, keep int, fails func([]string) bool) []string {
	cur := append([]string{}, script...)
	for chunk := (len(cur) - keep) / 2; chunk >= 1; chunk /= 2 {
		for again := true; again; {
			again = false
			for i := keep; i+chunk <= len(cur); {
				cand := append(append([]string{}, cur[:i]...), cur[i+chunk:]...)
				if fails(cand) {
					cur = cand
					again = chunk == 1
				} else {
					i += chunk
				}
			}
		}
	}
	return cur
}
