package hx

import (
	"fmt"
	"io"
	"sync"
)

// MemDevice is a simulated blockdevice.BlockDevice: a byte array plus a log
// of the writes since the last completed Sync (used by the crash models).
type MemDevice struct {
	mu      sync.Mutex
	Data    []byte
	Pending []DevWrite
	Writes  int
	Syncs   int
	// FailWrite, when set, is consulted before every write.
	FailWrite func(off int64, n int) error
	// CorruptReads > 0 makes that many upcoming ReadAt calls return data with the first byte flipped.
	CorruptReads int
	// CorruptFill makes a corrupted read return 0xff bytes throughout instead of one flipped byte.
	CorruptFill bool
	// LastReadOff is the offset of the most recent ReadAt.
	LastReadOff int64
	// Reads counts ReadAt calls; FirstCorruptOff is the offset of the most recent read that was corrupted.
	Reads           int
	FirstCorruptOff int64
	// OnWrite is called (without the lock) before a write is applied; it may block (gating).
	OnWrite func(off int64, p []byte)
	// OnRead is called (without the lock) before a read is served.
	OnRead func(off int64, n int)
	// OnReadDone is called (without the lock) after a read was served, before ReadAt returns: whatever it does
	// overtakes the caller between its device read and its use of the data.
	OnReadDone func(off int64, n int)
	// FailRead, when set, is consulted before every read.
	FailRead func(off int64, n int) error
}

// DevWrite is one WriteAt call.
type DevWrite struct {
	Off  int64
	Data []byte
}

func NewMemDevice(size int) *MemDevice { return &MemDevice{Data: make([]byte, size)} }

func (d *MemDevice) ReadAt(p []byte, off int64) (int, error) {
	if h := d.OnRead; h != nil {
		h(off, len(p))
	}
	n, err := d.readAt(p, off)
	if h := d.OnReadDone; h != nil && err == nil {
		h(off, n)
	}
	return n, err
}

func (d *MemDevice) readAt(p []byte, off int64) (int, error) {
	d.mu.Lock()
	defer d.mu.Unlock()
	if f := d.FailRead; f != nil {
		if err := f(off, len(p)); err != nil {
			return 0, err
		}
	}
	if off < 0 || off > int64(len(d.Data)) {
		return 0, fmt.Errorf("memdevice: read at %d out of range", off)
	}
	n := copy(p, d.Data[off:])
	d.LastReadOff = off
	d.Reads++
	if d.CorruptReads > 0 && n > 0 {
		d.FirstCorruptOff = off
		d.CorruptReads--
		p[0] ^= 0xff
		if d.CorruptFill {
			for i := 0; i < n; i++ {
				p[i] = 0xff
			}
		}
	}
	if n < len(p) {
		return n, io.EOF
	}
	return n, nil
}

func (d *MemDevice) WriteAt(p []byte, off int64) (int, error) {
	if h := d.OnWrite; h != nil {
		h(off, p)
	}
	d.mu.Lock()
	defer d.mu.Unlock()
	if f := d.FailWrite; f != nil {
		if err := f(off, len(p)); err != nil {
			return 0, err
		}
	}
	if off < 0 || off+int64(len(p)) > int64(len(d.Data)) {
		return 0, fmt.Errorf("memdevice: write at %d+%d out of range (%d)", off, len(p), len(d.Data))
	}
	copy(d.Data[off:], p)
	d.Pending = append(d.Pending, DevWrite{Off: off, Data: append([]byte(nil), p...)})
	d.Writes++
	return len(p), nil
}

func (d *MemDevice) Sync() error {
	d.mu.Lock()
	d.Pending = nil
	d.Syncs++
	d.mu.Unlock()
	return nil
}

func (d *MemDevice) Close() error { return nil }

// WriteCount returns the number of WriteAt calls so far.
func (d *MemDevice) WriteCount() int {
	d.mu.Lock()
	defer d.mu.Unlock()
	return d.Writes
}
