package c17

// Existence caches in front of stacks assembled by NewBlobAccessFromConfiguration, the way
// bb_storage assembles them: the cache is keyed by the digest key format the configuration code
// announces for the stack below it.  Two stacks are built from the same configuration, one with
// and one without the existence_caching wrapper (the reference: "what the backend reports");
// every operation goes to both.  Backends are in-memory local CAS stores (flat =
// KeyWithoutInstance, hierarchical = KeyWithInstance) that are far too large to evict anything.

import (
	"context"
	"crypto/sha256"
	"encoding/hex"
	"fmt"
	"strconv"
	"strings"

	remoteexecution "github.com/bazelbuild/remote-apis/build/bazel/remote/execution/v2"
	"github.com/buildbarn/bb-storage/pkg/blobstore"
	"github.com/buildbarn/bb-storage/pkg/blobstore/buffer"
	blobstore_configuration "github.com/buildbarn/bb-storage/pkg/blobstore/configuration"
	"github.com/buildbarn/bb-storage/pkg/digest"
	"github.com/buildbarn/bb-storage/pkg/program"
	pb "github.com/buildbarn/bb-storage/pkg/proto/configuration/blobstore"
	digest_pb "github.com/buildbarn/bb-storage/pkg/proto/configuration/digest"
	eviction_pb "github.com/buildbarn/bb-storage/pkg/proto/configuration/eviction"
	"google.golang.org/grpc/status"
	"google.golang.org/protobuf/types/known/durationpb"
	"google.golang.org/protobuf/types/known/emptypb"

	"verifharness/hx"
)

var stackInstances = []string{"", "a", "b", "a/x"}

func stackLocal(hier bool) *pb.BlobAccessConfiguration {
	return &pb.BlobAccessConfiguration{Backend: &pb.BlobAccessConfiguration_Local{Local: &pb.LocalBlobAccessConfiguration{
		KeyLocationMapBackend: &pb.LocalBlobAccessConfiguration_KeyLocationMapInMemory_{
			KeyLocationMapInMemory: &pb.LocalBlobAccessConfiguration_KeyLocationMapInMemory{Entries: 1021}},
		KeyLocationMapMaximumGetAttempts: 16,
		KeyLocationMapMaximumPutAttempts: 64,
		OldBlocks:                        2,
		CurrentBlocks:                    2,
		NewBlocks:                        1,
		BlocksBackend: &pb.LocalBlobAccessConfiguration_BlocksInMemory_{
			BlocksInMemory: &pb.LocalBlobAccessConfiguration_BlocksInMemory{BlockSizeBytes: 4096}},
		HierarchicalInstanceNames: hier,
	}}}
}

func stackReplicator(repl string) *pb.BlobReplicatorConfiguration {
	if repl == "local" {
		return &pb.BlobReplicatorConfiguration{Mode: &pb.BlobReplicatorConfiguration_Local{Local: &emptypb.Empty{}}}
	}
	return &pb.BlobReplicatorConfiguration{Mode: &pb.BlobReplicatorConfiguration_Noop{Noop: &emptypb.Empty{}}}
}

// stackShape is the decorator under test over the backends p and s.
func stackShape(shape, repl string, p, s *pb.BlobAccessConfiguration) *pb.BlobAccessConfiguration {
	switch shape {
	case "fallback":
		return &pb.BlobAccessConfiguration{Backend: &pb.BlobAccessConfiguration_ReadFallback{ReadFallback: &pb.ReadFallbackBlobAccessConfiguration{
			Primary: p, Secondary: s, Replicator: stackReplicator(repl)}}}
	case "caching":
		return &pb.BlobAccessConfiguration{Backend: &pb.BlobAccessConfiguration_ReadCaching{ReadCaching: &pb.ReadCachingBlobAccessConfiguration{
			Fast: p, Slow: s, Replicator: stackReplicator(repl)}}}
	case "mirrored":
		return &pb.BlobAccessConfiguration{Backend: &pb.BlobAccessConfiguration_Mirrored{Mirrored: &pb.MirroredBlobAccessConfiguration{
			BackendA: p, BackendB: s, ReplicatorAToB: stackReplicator("local"), ReplicatorBToA: stackReplicator("local")}}}
	}
	return p
}

// stackConfiguration: labels P and S are the two stores; instance names "seedp/…" and "seeds/…"
// address them directly, every other instance name goes through the stack (with the existence
// cache when cacheSize > 0).
func stackConfiguration(shape, repl string, hierP, hierS bool, cacheSize int) *pb.BlobAccessConfiguration {
	label := func(l string) *pb.BlobAccessConfiguration {
		return &pb.BlobAccessConfiguration{Backend: &pb.BlobAccessConfiguration_Label{Label: l}}
	}
	top := stackShape(shape, repl, label("P"), label("S"))
	if cacheSize > 0 {
		top = &pb.BlobAccessConfiguration{Backend: &pb.BlobAccessConfiguration_ExistenceCaching{ExistenceCaching: &pb.ExistenceCachingBlobAccessConfiguration{
			ExistenceCache: &digest_pb.ExistenceCacheConfiguration{CacheSize: int64(cacheSize), CacheDuration: durationpb.New(3600 * 1e9),
				CacheReplacementPolicy: eviction_pb.CacheReplacementPolicy_LEAST_RECENTLY_USED},
			Backend: top}}}
	}
	demux := &pb.BlobAccessConfiguration{Backend: &pb.BlobAccessConfiguration_Demultiplexing{Demultiplexing: &pb.DemultiplexingBlobAccessConfiguration{
		InstanceNamePrefixes: map[string]*pb.DemultiplexedBlobAccessConfiguration{
			"seedp": {Backend: label("P")}, "seeds": {Backend: label("S")}, "": {Backend: top}}}}}
	return &pb.BlobAccessConfiguration{Backend: &pb.BlobAccessConfiguration_WithLabels{WithLabels: &pb.WithLabelsBlobAccessConfiguration{
		Backend: demux, Labels: map[string]*pb.BlobAccessConfiguration{"P": stackLocal(hierP), "S": stackLocal(hierS)}}}}
}

func buildStack(c *pb.BlobAccessConfiguration) (info blobstore_configuration.BlobAccessInfo, err error) {
	defer func() {
		if p := recover(); p != nil {
			err = fmt.Errorf("panic: %v", p)
		}
	}()
	err = program.RunLocal(context.Background(), func(ctx context.Context, siblingsGroup, dependenciesGroup program.Group) error {
		var e error
		info, e = blobstore_configuration.NewBlobAccessFromConfiguration(dependenciesGroup, c,
			blobstore_configuration.NewCASBlobAccessCreator(nil, 1<<20, nil))
		return e
	})
	return info, err
}

func stackContent(c int) []byte { return []byte(fmt.Sprintf("stack-content-%d", c)) }

func stackDigest(inst string, c int) digest.Digest {
	data := stackContent(c)
	h := sha256.Sum256(data)
	return digest.MustNewDigest(inst, remoteexecution.DigestFunction_SHA256, hex.EncodeToString(h[:]), int64(len(data)))
}

func fmtNum(f digest.KeyFormat) int {
	if f == digest.KeyWithInstance {
		return 1
	}
	return 0
}

// runStack: `#cfg stack <shape> <hierP> <hierS> <cacheSize> <repl>`; lines s.seed p|s <inst#> <c>,
// s.put <inst#> <c>, s.get <inst#> <c>, s.fm <inst#> <c>…
func runStack(script []string) *caseResult {
	res := &caseResult{}
	cfg := strings.Fields(script[0])
	if len(cfg) != 7 {
		res.fail("bad-script", "cfg")
		return res
	}
	shape, repl := cfg[2], cfg[6]
	hierP, hierS := cfg[3] == "1", cfg[4] == "1"
	cacheSize, _ := strconv.Atoi(cfg[5])
	if cacheSize < 1 {
		res.fail("bad-script", "cache size")
		return res
	}
	sutInfo, err1 := buildStack(stackConfiguration(shape, repl, hierP, hierS, cacheSize))
	refInfo, err2 := buildStack(stackConfiguration(shape, repl, hierP, hierS, 0))
	bare, err3 := buildStack(stackShape(shape, repl, stackLocal(hierP), stackLocal(hierS)))
	pInfo, err4 := buildStack(stackLocal(hierP))
	sInfo, err5 := buildStack(stackLocal(hierS))
	for _, e := range []error{err1, err2, err3, err4, err5} {
		if e != nil {
			res.fail("a stack could not be built from its configuration", e.Error())
			return res
		}
	}
	emit := func(line, reply string) {
		res.modelLines = append(res.modelLines, line)
		res.impl = append(res.impl, reply)
	}
	// what the configuration code announces for the stack under the cache
	fa, fb := fmtNum(pInfo.DigestKeyFormat), fmtNum(sInfo.DigestKeyFormat)
	emit(fmt.Sprintf("k.format %s %d %d", shape, fa, fb), strconv.Itoa(fmtNum(bare.DigestKeyFormat)))
	for _, pair := range [][4]int{{1, 0, 2, 0}, {1, 0, 1, 1}, {1, 2, 1, 2}, {0, 1, 3, 1}} {
		a, b := stackDigest(stackInstances[pair[0]], pair[1]), stackDigest(stackInstances[pair[2]], pair[3])
		word := "different"
		if a.GetKey(bare.DigestKeyFormat) == b.GetKey(bare.DigestKeyFormat) {
			word = "same"
		}
		emit(fmt.Sprintf("k.same %d %d %d %d %d", fmtNum(bare.DigestKeyFormat), pair[0], pair[1], pair[2], pair[3]), word)
	}
	ctx := context.Background()
	sut, ref := sutInfo.BlobAccess, refInfo.BlobAccess
	reported := map[string]bool{} // "<inst#>/<c>": presence reported by the stack under the cache in a call through the cache
	fms := 0
	for _, line := range script[1:] {
		w := strings.Fields(line)
		if len(w) < 3 {
			continue
		}
		n := func(i int) int { v, _ := strconv.Atoi(w[i]); return v }
		switch w[0] {
		case "s.seed":
			if len(w) != 4 || n(2) >= len(stackInstances) {
				continue
			}
			inst := "seed" + w[1]
			if stackInstances[n(2)] != "" {
				inst += "/" + stackInstances[n(2)]
			}
			for _, ba := range []blobstore.BlobAccess{sut, ref} {
				if err := ba.Put(ctx, stackDigest(inst, n(3)), buffer.NewValidatedBufferFromByteSlice(stackContent(n(3)))); err != nil {
					res.fail("seeding a backend of a configured stack failed", fmt.Sprintf("%s: %v", line, err))
				}
			}
		case "s.put":
			if n(1) >= len(stackInstances) {
				continue
			}
			d := stackDigest(stackInstances[n(1)], n(2))
			e1 := sut.Put(ctx, d, buffer.NewValidatedBufferFromByteSlice(stackContent(n(2))))
			e2 := ref.Put(ctx, d, buffer.NewValidatedBufferFromByteSlice(stackContent(n(2))))
			if status.Code(e1) != status.Code(e2) {
				res.fail("an upload through the existence-caching stack ends differently from the same stack without the cache", fmt.Sprintf("%s: %v vs %v", line, e1, e2))
			}
		case "s.get":
			if n(1) >= len(stackInstances) {
				continue
			}
			d := stackDigest(stackInstances[n(1)], n(2))
			_, e1 := sut.Get(ctx, d).ToByteSlice(1000)
			_, e2 := ref.Get(ctx, d).ToByteSlice(1000)
			if status.Code(e1) != status.Code(e2) {
				res.fail("a read through the existence-caching stack ends differently from the same stack without the cache", fmt.Sprintf("%s: %v vs %v", line, e1, e2))
			}
		case "s.fm":
			if n(1) >= len(stackInstances) {
				continue
			}
			fms++
			var cs []int
			sb := digest.NewSetBuilder(len(w))
			for i := 2; i < len(w); i++ {
				cs = append(cs, n(i))
				sb.Add(stackDigest(stackInstances[n(1)], n(i)))
			}
			set := sb.Build()
			refMissing, e2 := ref.FindMissing(ctx, set)
			sutMissing, e1 := sut.FindMissing(ctx, set)
			if e1 != nil || e2 != nil {
				res.fail("FindMissing of a configured stack failed", fmt.Sprintf("%s: %v / %v", line, e1, e2))
				continue
			}
			inRef, inSut := map[string]bool{}, map[string]bool{}
			for _, d := range refMissing.Items() {
				inRef[d.GetKey(digest.KeyWithInstance)] = true
			}
			for _, d := range sutMissing.Items() {
				inSut[d.GetKey(digest.KeyWithInstance)] = true
			}
			for _, c := range sortedUnique(cs) {
				k := stackDigest(stackInstances[n(1)], c).GetKey(digest.KeyWithInstance)
				id := fmt.Sprintf("%d/%d", n(1), c)
				switch {
				case !inSut[k] && inRef[k] && !reported[id]:
					res.fail("the existence cache hid a digest without a report of presence within the configured duration",
						fmt.Sprintf("%s: instance %q content %d is reported present through the cache; the same stack without the cache reports it missing and never reported it present for that instance name (cache keyed by format %d)",
							line, stackInstances[n(1)], c, fmtNum(bare.DigestKeyFormat)))
				case inSut[k] && !inRef[k]:
					res.fail("the existence-caching stack reports an object missing that the stack under the cache reports present", line)
				case !inSut[k] && !inRef[k]:
					reported[id] = true
				}
			}
		}
	}
	res.nontrivial = fms >= 3
	return res
}

func genStack(r *hx.Rand) []string {
	shape := []string{"fallback", "fallback", "caching", "mirrored", "local"}[r.Intn(5)]
	script := []string{fmt.Sprintf("#cfg stack %s %d %d %d %s", shape, r.Intn(2), r.Intn(2), r.PickInt(1, 2, 3, 100),
		[]string{"noop", "local"}[r.Intn(2)])}
	nops := r.Range(5, 14)
	for i := 0; i < nops; i++ {
		inst, c := r.Intn(len(stackInstances)), r.Intn(3)
		switch x := r.Intn(100); {
		case x < 22:
			script = append(script, fmt.Sprintf("s.seed %s %d %d", []string{"p", "s"}[r.Intn(2)], inst, c))
		case x < 32:
			script = append(script, fmt.Sprintf("s.put %d %d", inst, c))
		case x < 42:
			script = append(script, fmt.Sprintf("s.get %d %d", inst, c))
		default:
			line := fmt.Sprintf("s.fm %d %d", inst, c)
			if r.Chance(1, 3) {
				line += fmt.Sprintf(" %d", r.Intn(3))
			}
			script = append(script, line)
		}
	}
	return script
}
