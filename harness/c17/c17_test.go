// Package c17 ties the Lean models of property C17 (BB.Caching) to the real
// readcaching / readfallback decorators, the replicator decorators
// (deduplicating, concurrency limiting, queued), the existence cache and
// ExistenceCachingBlobAccess, and states C17 directly on observed behaviour.
package c17

import (
	"context"
	"fmt"
	"regexp"
	"sort"
	"strconv"
	"strings"
	"sync"
	"testing"
	"time"

	remoteexecution "github.com/bazelbuild/remote-apis/build/bazel/remote/execution/v2"
	"github.com/buildbarn/bb-storage/pkg/blobstore"
	"github.com/buildbarn/bb-storage/pkg/blobstore/buffer"
	"github.com/buildbarn/bb-storage/pkg/blobstore/readcaching"
	"github.com/buildbarn/bb-storage/pkg/blobstore/readfallback"
	"github.com/buildbarn/bb-storage/pkg/blobstore/replication"
	"github.com/buildbarn/bb-storage/pkg/blobstore/slicing"
	"github.com/buildbarn/bb-storage/pkg/clock"
	"github.com/buildbarn/bb-storage/pkg/digest"
	"golang.org/x/sync/semaphore"
	"google.golang.org/grpc/codes"
	"google.golang.org/grpc/status"

	"verifharness/hx"
)

const keyFormat = digest.KeyWithoutInstance

// ---------------------------------------------------------------- digests, values, errors

// emptyKey is the object of size zero (the "empty blob"): code that special-cases it must still
// be transparent, because the recording backends do not hold it implicitly.
const emptyKey = 0

func digestOf(k int) digest.Digest {
	size := int64(100)
	if k == emptyKey {
		size = 0
	}
	return digest.MustNewDigest("c17", remoteexecution.DigestFunction_SHA256, fmt.Sprintf("%064x", k), size)
}

func keyOf(d digest.Digest) int {
	v, _ := strconv.ParseInt(d.GetHashString()[48:], 16, 64)
	return int(v)
}

func setOf(ks []int) digest.Set {
	b := digest.NewSetBuilder(len(ks))
	for _, k := range ks {
		b.Add(digestOf(k))
	}
	return b.Build()
}

func keysOf(s digest.Set) []int {
	var ks []int
	for _, d := range s.Items() {
		ks = append(ks, keyOf(d))
	}
	sort.Ints(ks)
	return ks
}

func showKeys(ks []int) string {
	if len(ks) == 0 {
		return "-"
	}
	w := make([]string, len(ks))
	for i, k := range ks {
		w[i] = strconv.Itoa(k)
	}
	return strings.Join(w, " ")
}

func valBytes(v int) []byte { return []byte(fmt.Sprintf("v%d", v)) }
func valOf(b []byte) int    { v, _ := strconv.Atoi(strings.TrimPrefix(string(b), "v")); return v }

func faultErr(code, id int) error {
	return status.Error(codes.Code(code), fmt.Sprintf("fault#%d", id))
}

var faultRe = regexp.MustCompile(`fault#(\d+)`)

// canonErr maps an error to "err <grpc code> <fault id>" (id 0: not an injected fault).
func canonErr(err error) string {
	if err == nil {
		return "ok"
	}
	id := 0
	if m := faultRe.FindStringSubmatch(err.Error()); m != nil {
		id, _ = strconv.Atoi(m[1])
	}
	return fmt.Sprintf("err %d %d", int(status.Code(err)), id)
}

// ---------------------------------------------------------------- recording backend with a fault script

type fault struct {
	some     bool
	code, id int
}

type memBackend struct {
	mu     sync.Mutex
	data   map[int]int
	faults []fault
	calls  int
	asked  [][]int // arguments of FindMissing
	onFind func()  // called inside FindMissing (clock advance)
}

func newMemBackend() *memBackend { return &memBackend{data: map[int]int{}} }

// tick consumes one script entry.
func (b *memBackend) tick() error {
	b.calls++
	if len(b.faults) == 0 {
		return nil
	}
	f := b.faults[0]
	b.faults = b.faults[1:]
	if f.some {
		return faultErr(f.code, f.id)
	}
	return nil
}

func (b *memBackend) Get(ctx context.Context, d digest.Digest) buffer.Buffer {
	b.mu.Lock()
	defer b.mu.Unlock()
	if err := b.tick(); err != nil {
		return buffer.NewBufferFromError(err)
	}
	v, ok := b.data[keyOf(d)]
	if !ok {
		return buffer.NewBufferFromError(faultErr(int(codes.NotFound), 0))
	}
	return buffer.NewValidatedBufferFromByteSlice(valBytes(v))
}

func (b *memBackend) GetFromComposite(ctx context.Context, parent, child digest.Digest, slicer slicing.BlobSlicer) buffer.Buffer {
	return b.Get(ctx, parent)
}

func (b *memBackend) Put(ctx context.Context, d digest.Digest, buf buffer.Buffer) error {
	b.mu.Lock()
	err := b.tick()
	b.mu.Unlock()
	if err != nil {
		buf.Discard()
		return err
	}
	data, err := buf.ToByteSlice(1000)
	if err != nil {
		return err
	}
	b.mu.Lock()
	b.data[keyOf(d)] = valOf(data)
	b.mu.Unlock()
	return nil
}

func (b *memBackend) FindMissing(ctx context.Context, ds digest.Set) (digest.Set, error) {
	b.mu.Lock()
	defer b.mu.Unlock()
	b.asked = append(b.asked, keysOf(ds))
	if b.onFind != nil {
		b.onFind()
	}
	if err := b.tick(); err != nil {
		return digest.EmptySet, err
	}
	var missing []int
	for _, k := range keysOf(ds) {
		if _, ok := b.data[k]; !ok {
			missing = append(missing, k)
		}
	}
	return setOf(missing), nil
}

func (b *memBackend) GetCapabilities(ctx context.Context, i digest.InstanceName) (*remoteexecution.ServerCapabilities, error) {
	return &remoteexecution.ServerCapabilities{}, nil
}

func (b *memBackend) snapshot() map[int]int {
	b.mu.Lock()
	defer b.mu.Unlock()
	m := map[int]int{}
	for k, v := range b.data {
		m[k] = v
	}
	return m
}

func (b *memBackend) dump(n int) string {
	b.mu.Lock()
	defer b.mu.Unlock()
	var items []string
	for k := 0; k < n; k++ {
		if v, ok := b.data[k]; ok {
			items = append(items, fmt.Sprintf("%d=%d", k, v))
		}
	}
	s := "-"
	if len(items) > 0 {
		s = strings.Join(items, ",")
	}
	return fmt.Sprintf("%s calls=%d script=%d", s, b.calls, len(b.faults))
}

// pendingFault reports whether any remaining script entry is a fault, and the head entry.
func (b *memBackend) pendingFault() (any bool, head fault) {
	b.mu.Lock()
	defer b.mu.Unlock()
	for _, f := range b.faults {
		if f.some {
			any = true
		}
	}
	if len(b.faults) > 0 {
		head = b.faults[0]
	}
	return
}

// ---------------------------------------------------------------- harness clock

type fakeClock struct {
	mu  sync.Mutex
	now int64
}

var _ clock.Clock = (*fakeClock)(nil)

const clockBase = 1_700_000_000

func (c *fakeClock) set(t int) { c.mu.Lock(); c.now = int64(t); c.mu.Unlock() }
func (c *fakeClock) Now() time.Time {
	c.mu.Lock()
	defer c.mu.Unlock()
	return time.Unix(clockBase+c.now, 0)
}
func (c *fakeClock) NewContextWithTimeout(parent context.Context, d time.Duration) (context.Context, context.CancelFunc) {
	return context.WithCancel(parent)
}
func (c *fakeClock) NewTimer(d time.Duration) (clock.Timer, <-chan time.Time) {
	panic("fakeClock.NewTimer is not used by the code under test")
}
func (c *fakeClock) NewTicker(d time.Duration) (clock.Ticker, <-chan time.Time) {
	panic("fakeClock.NewTicker is not used by the code under test")
}

// ---------------------------------------------------------------- replicator construction

func copying(repl string) bool { return strings.HasSuffix(repl, "local") }

func buildRepl(repl string, src, sink blobstore.BlobAccess) replication.BlobReplicator {
	parts := strings.Split(repl, ".")
	var r replication.BlobReplicator
	switch parts[len(parts)-1] {
	case "noop":
		r = replication.NewNoopBlobReplicator(src)
	case "local":
		r = replication.NewLocalBlobReplicator(src, sink)
	default:
		return nil
	}
	for i := len(parts) - 2; i >= 0; i-- {
		switch parts[i] {
		case "dedup":
			r = replication.NewDeduplicatingBlobReplicator(r, sink, keyFormat)
		case "limit":
			r = replication.NewConcurrencyLimitingBlobReplicator(r, sink, semaphore.NewWeighted(1))
		default:
			return nil
		}
	}
	return r
}

var _ = readcaching.NewReadCachingBlobAccess
var _ = readfallback.NewReadFallbackBlobAccess
var _ hx.Finding

// ---------------------------------------------------------------- driver of the test

// execCase runs a script (replay / corpus / shrink) or generates one online (gen != nil, for the
// concurrent kinds) and returns the result with the script that was actually executed.
func execCase(t *testing.T, script []string, gen *hx.Rand) (*caseResult, []string) {
	if len(script) == 0 || !strings.HasPrefix(script[0], "#cfg ") {
		r := &caseResult{}
		r.fail("bad-script", "missing #cfg line")
		return r, script
	}
	cfg := strings.Fields(script[0])
	if len(cfg) < 2 {
		r := &caseResult{}
		r.fail("bad-script", "cfg")
		return r, script
	}
	switch cfg[1] {
	case "comp":
		return runComp(script), script
	case "exist":
		return runExist(script), script
	case "stack":
		return runStack(script), script
	case "dedup":
		return runDedup(t, script, gen)
	case "limit", "queue":
		return runLimitOrQueue(t, script, gen)
	}
	r := &caseResult{}
	r.fail("bad-script", "unknown kind")
	return r, script
}

// compare sends the model lines to the Lean driver and returns the first difference.
func compare(run *hx.Run, model *hx.Model, res *caseResult) (detail string, mo []string) {
	if model == nil {
		return "", nil
	}
	mo = model.Batch(res.modelLines)
	run.Compared(len(mo))
	for i := range mo {
		if i < len(res.impl) && mo[i] != res.impl[i] {
			return fmt.Sprintf("step %d %q: impl=%q model=%q", i, res.modelLines[i], res.impl[i], mo[i]), mo
		}
	}
	return "", mo
}

func TestC17(t *testing.T) {
	run := hx.NewRun("C17")
	defer run.Finish(t)
	model, err := hx.StartModel()
	if err != nil {
		t.Fatalf("start model: %v", err)
	}
	defer model.Close()
	run.HasModel = model != nil
	run.SetRule("six kinds of cases: existence caches over stacks built by NewBlobAccessFromConfiguration (read_fallback, read_caching, mirrored, local over flat / hierarchical local stores, same hash under several instance names, compared with the same stack without the cache); composite histories (readcaching/readfallback over two recording backends with fault scripts, " +
		"replicators noop/local/dedup/limit nestings), existence-cache histories (size 1..3, clock around expiry boundaries), and " +
		"synctest schedules of the deduplicating, concurrency-limiting and queued replicators with gated sink/base calls, overlapping " +
		"digest sets, failures and cancellations; non-trivial: >= 3 operations resp. >= 2 callers and >= 6 schedule steps; distinct by script hash")

	handle := func(name string, script []string, gen *hx.Rand) {
		res, actual := execCase(t, script, gen)
		kind := strings.Fields(actual[0])[1]
		diff, mo := compare(run, model, res)
		run.Case(actual, res.nontrivial, model != nil)
		run.Count("kind:" + kind)
		for _, r := range res.impl {
			switch {
			case strings.HasPrefix(r, "err"):
				run.Count("reply:err")
			case strings.Contains(r, "ret(err"):
				run.Count("reply:caller-error")
			}
		}
		if res.what == "" && diff == "" {
			return
		}
		what := res.what
		fails := func(s []string) bool {
			r2, _ := execCase(t, s, nil)
			if what != "" {
				return r2.what == what
			}
			d2, _ := compare(run, model, r2)
			return d2 != ""
		}
		small := hx.Shrink(actual, 1, fails)
		if len(small) < len(actual) {
			r2, a2 := execCase(t, small, nil)
			d2, m2 := compare(run, model, r2)
			if (what != "" && r2.what == what) || (what == "" && d2 != "") {
				res, actual, diff, mo = r2, a2, d2, m2
			}
		}
		if res.what != "" {
			run.Report(hx.Finding{Kind: "oracle", What: res.what, Detail: res.detail, Case: name, Script: actual, Impl: res.impl})
		}
		if diff != "" {
			run.Report(hx.Finding{Kind: "disagreement", What: "model/implementation differ", Detail: diff,
				Case: name, Script: actual, Impl: res.impl, Model: mo})
		}
	}

	if name, script := run.ReplayScript(); script != nil {
		res, actual := execCase(t, script, nil)
		diff, mo := compare(run, model, res)
		run.Case(actual, res.nontrivial, model != nil)
		if res.what != "" {
			run.Report(hx.Finding{Kind: "oracle", What: res.what, Detail: res.detail, Case: name, Script: actual, Impl: res.impl})
		}
		if diff != "" {
			run.Report(hx.Finding{Kind: "disagreement", What: "model/implementation differ", Detail: diff, Case: name, Script: actual, Impl: res.impl, Model: mo})
		}
		t.Logf("replay %s: oracle=%q %s diff=%q", name, res.what, res.detail, diff)
		t.Logf("lines: %v", res.modelLines)
		t.Logf("impl:  %v", res.impl)
		t.Logf("model: %v", mo)
		return
	}
	for name, script := range run.CorpusScripts() {
		handle("corpus/"+name, script, nil)
	}
	for _, s := range fixedCases() {
		handle("fixed/"+s[0], s[1:], nil)
	}
	nSeq := run.Scale(5000, 160000)
	for i := 0; i < nSeq && run.Findings() < 20; i++ {
		r := hx.NewRand(run.Seed, "C17", i)
		if i%2 == 0 {
			handle(fmt.Sprintf("seed%d/comp%d", run.Seed, i), genComp(r), nil)
		} else {
			handle(fmt.Sprintf("seed%d/exist%d", run.Seed, i), genExist(r), nil)
		}
	}
	nStack := run.Scale(500, 8000)
	for i := 0; i < nStack && run.Findings() < 20; i++ {
		handle(fmt.Sprintf("seed%d/stack%d", run.Seed, i), genStack(hx.NewRand(run.Seed, "C17stack", i)), nil)
	}
	nConc := run.Scale(3000, 90000)
	for i := 0; i < nConc && run.Findings() < 20; i++ {
		r := hx.NewRand(run.Seed, "C17conc", i)
		switch i % 3 {
		case 0:
			handle(fmt.Sprintf("seed%d/dedup%d", run.Seed, i), []string{"#cfg dedup"}, r)
		case 1:
			handle(fmt.Sprintf("seed%d/limit%d", run.Seed, i), []string{fmt.Sprintf("#cfg limit %d", r.Range(1, 3))}, r)
		default:
			handle(fmt.Sprintf("seed%d/queue%d", run.Seed, i), []string{fmt.Sprintf("#cfg queue %d %d", r.Range(1, 3), r.PickInt(0, 2, 5))}, r)
		}
	}
	if run.Thorough() && run.Findings() == 0 {
		// all schedules of <= 5 environment actions of three callers of the deduplicating replicator
		// (two asking for object 0, one for objects 0 and 1); lines that are not enabled are skipped,
		// so many sequences collapse onto the same executed schedule
		var alphabet []string
		for i := 0; i < 3; i++ {
			alphabet = append(alphabet, fmt.Sprintf("d.sink %d auto", i), fmt.Sprintf("d.sink %d err 14 %d", i, 10+i),
				fmt.Sprintf("d.copy %d ok", i), fmt.Sprintf("d.copy %d err 13 %d", i, 20+i), fmt.Sprintf("d.cancel %d", i))
		}
		alphabet = append(alphabet, "d.call 0 0", "d.call 0 0 1", "d.evict 0")
		count := 0
		var rec func(prefix []string, depth int)
		rec = func(prefix []string, depth int) {
			if run.Findings() >= 20 {
				return
			}
			if depth == 0 {
				handle(fmt.Sprintf("exh/dedup%d", count), append([]string{"#cfg dedup", "d.call 0 0"}, prefix...), nil)
				count++
				return
			}
			for _, a := range alphabet {
				rec(append(append([]string{}, prefix...), a), depth-1)
			}
		}
		rec(nil, 4)
		run.Extra("exhaustive_dedup_sequences", count)
	}
}

// fixedCases are hand-written schedules for the situations the property names explicitly.
func fixedCases() [][]string {
	return [][]string{
		{"dedup-leader-fails-waiters-retry", "#cfg dedup", "d.call 0 1", "d.call 0 1", "d.call 0 1 2", "d.sink 0 auto",
			"d.copy 0 err 14 7", "d.sink 1 auto", "d.sink 2 auto", "d.copy 1 ok", "d.copy 2 ok"},
		{"dedup-cancel-waiter", "#cfg dedup", "d.call 0 1", "d.call 0 1", "d.cancel 1", "d.sink 0 auto", "d.copy 0 ok"},
		{"dedup-sink-error", "#cfg dedup", "d.call 0 0 1", "d.call 0 0", "d.sink 0 err 13 9", "d.sink 1 auto", "d.copy 1 ok"},
		{"dedup-present-after-evict", "#cfg dedup", "d.seed 1", "d.call 0 1", "d.evict 1", "d.call 0 1", "d.sink 0 auto", "d.copy 0 ok"},
		{"limit-one", "#cfg limit 1", "l.call 0 m 1", "l.call 0 m 2", "l.call 1 m 0", "l.cancel 1", "l.base 0 err 14 3"},
		{"limit-entry-points", "#cfg limit 1", "l.call 0 c 1", "l.call 0 s 2", "l.call 0 c 3", "l.base 0 ok", "l.base 1 okn", "l.base 2 ok"},
		{"dedup-entry-points", "#cfg dedup", "d.callc 0 1", "d.calls 0 1", "d.call 0 1 2", "d.sink 0 auto", "d.copy 0 ok", "d.sink 2 auto", "d.copy 2 ok"},
		{"queue-cached", "#cfg queue 2 5", "q.clock 3", "q.call 0 m 1 2", "q.call 0 s 2", "q.base 0 ok", "q.clock 8", "q.call 0 c 1", "q.clock 9", "q.call 0 m 1 2", "q.base 1 ok", "q.base 3 ok"},
		{"exist-size-one", "#cfg exist 1 10", "e.set 1", "e.set 2", "e.fm 5 5 1", "e.del 1", "e.fm 15 15 1", "e.fm 16 16 1", "e.fm 17 17 2", "e.fm 18 18 1 2"},
		{"stack-fallback-flat-over-hierarchical", "#cfg stack fallback 0 1 100 noop", "s.seed s 1 0", "s.fm 1 0 1", "s.fm 1 0", "s.fm 2 0", "s.get 2 0", "s.fm 3 0"},
		{"stack-mirrored-hierarchical-and-flat", "#cfg stack mirrored 1 0 2 noop", "s.seed p 1 0", "s.fm 1 0", "s.fm 2 0", "s.put 2 1", "s.fm 1 1", "s.fm 2 1"},
		{"stack-caching-hierarchical-slow", "#cfg stack caching 0 1 3 local", "s.seed s 1 0", "s.get 1 0", "s.fm 1 0", "s.fm 2 0", "s.fm 3 0"},
		{"comp-empty-blob", "#cfg comp cache dedup.local", "c.set src 0 5", "c.get 0", "c.del sink 0", "c.ffm 0 1", "c.del sink 0", "c.repl 0 1"},
		{"comp-dedup-local", "#cfg comp cache dedup.local", "c.set src 1 11", "c.get 1", "c.get 2", "c.fault sink 14 1", "c.get 1", "c.ffm 1 2 3"},
	}
}
