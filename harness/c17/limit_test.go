package c17

import (
	"fmt"
	"strconv"
	"strings"
	"testing"
	"time"

	"github.com/buildbarn/bb-storage/pkg/blobstore/replication"
	"github.com/buildbarn/bb-storage/pkg/digest"
	"github.com/buildbarn/bb-storage/pkg/eviction"
	"golang.org/x/sync/semaphore"

	"verifharness/hx"
)

// runLimit: `#cfg limit <n>`; lines l.call <cancelled> <m|s|c> <k>… | l.cancel <i> | l.base <i> ok|okn|err <c> <id>.
// runQueue: `#cfg queue <cap> <dur>`; lines q.clock <t> | q.call … | q.cancel <i> | q.base <i> ok|err <c> <id>.
func runLimitOrQueue(t *testing.T, script []string, gen *hx.Rand) (*caseResult, []string) {
	res := &caseResult{}
	cfg := strings.Fields(script[0])
	actual := []string{script[0]}
	queue := cfg[1] == "queue"
	p1, _ := strconv.Atoi(cfg[2])
	p2 := 0
	if queue {
		if len(cfg) != 4 {
			res.fail("bad-script", "cfg")
			return res, actual
		}
		p2, _ = strconv.Atoi(cfg[3])
	}
	if p1 < 1 {
		res.fail("bad-script", "cfg")
		return res, actual
	}
	bubble(t, res, func(t *testing.T) {
		a := newArena()
		w := &world{a: a, res: res, wasDone: map[int]bool{}, delivered: map[int]int{}}
		clk := &fakeClock{}
		sink := newMemBackend() // limiter: read back by ReplicateSingle / ReplicateComposite
		kinds := map[int]string{}
		now := 0
		pfx := "l"
		if queue {
			pfx = "q"
			w.kind = "q"
			ec := digest.NewExistenceCache(clk, keyFormat, p1, time.Duration(p2)*time.Second, eviction.NewLRUSet[string]())
			source := newMemBackend() // holds every object: ReplicateSingle / ReplicateComposite read it
			for k := 0; k < 8; k++ {
				source.data[k] = 1
			}
			w.repl = replication.NewQueuedBlobReplicator(source, gatedBase{a}, ec)
			w.emit(fmt.Sprintf("q.init %d %d", p1, p2), "ok")
		} else {
			w.kind = "l"
			w.repl = replication.NewConcurrencyLimitingBlobReplicator(gatedBase{a}, sink, semaphore.NewWeighted(int64(p1)))
			w.emit(fmt.Sprintf("l.init %d", p1), "ok")
		}
		type success struct {
			keys []int
			t    int
		}
		var successes []success       // base calls that returned nil: their digests and clock reading
		ownOK := map[int][]int{}      // caller -> digests of its own successful base call
		baseSeen := map[int]bool{}    // callers that were inside base
		after := func(line string) {
			obs, settle, newly := w.observe()
			if queue {
				w.emit(fmt.Sprintf("q.settle %d%s", now, settle), obs)
			} else {
				w.emit("l.settle"+settle, obs)
			}
			for _, c := range w.callers {
				if g := a.at(c.id); g != nil {
					baseSeen[c.id] = true
				}
			}
			for _, c := range newly {
				ce := canonErr(c.result)
				switch {
				case c.result == nil && !queue:
					if ownOK[c.id] == nil {
						res.fail("the limiting replicator reported success although the caller's base call did not succeed", fmt.Sprintf("caller %d", c.id))
					}
					if kinds[c.id] != "m" {
						if _, ok := sink.data[c.keys[0]]; !ok {
							res.fail("ReplicateSingle/ReplicateComposite of the limiting replicator succeeded although the sink does not hold the object",
								fmt.Sprintf("caller %d object %d", c.id, c.keys[0]))
						}
					}
				case c.result == nil && queue:
					for _, k := range c.keys {
						ok := false
						for _, kk := range ownOK[c.id] {
							if kk == k {
								ok = true
							}
						}
						for _, s := range successes {
							for _, kk := range s.keys {
								if kk == k && c.started <= s.t+p2 {
									ok = true
								}
							}
						}
						if !ok {
							res.fail("the queued replicator reported success for an object that no successful copy within the cache duration covers",
								fmt.Sprintf("caller %d (digests %v, called at %d): object %d; successes %v", c.id, c.keys, c.started, k, successes))
						}
					}
				case ce == "err 1 0":
					if !c.cancelled {
						res.fail("a caller whose context was not cancelled returned CANCELLED", fmt.Sprintf("caller %d", c.id))
					}
					if baseSeen[c.id] {
						res.fail("a caller returned the context's error although its base call had been made", fmt.Sprintf("caller %d", c.id))
					}
				case ce == "err 13 0" && !queue && kinds[c.id] != "m":
					if _, ok := sink.data[c.keys[0]]; ok || ownOK[c.id] == nil {
						res.fail("ReplicateSingle/ReplicateComposite of the limiting replicator reported INTERNAL although the sink holds the object or base had not succeeded",
							fmt.Sprintf("caller %d object %d", c.id, c.keys[0]))
					}
				default:
					id, _ := strconv.Atoi(strings.Fields(ce)[2])
					if owner, ok := w.delivered[id]; !ok || owner != c.id {
						res.fail("a caller returned an error that was produced for another caller's base call",
							fmt.Sprintf("caller %d returned %q", c.id, ce))
					}
				}
			}
		}
		apply := func(line string) bool {
			f := strings.Fields(line)
			n := func(i int) int { v, _ := strconv.Atoi(f[i]); return v }
			switch {
			case f[0] == "q.clock" && queue && len(f) == 2:
				if n(1) < now {
					return false
				}
				now = n(1)
				clk.set(now)
			case f[0] == pfx+".call" && len(f) >= 4 && (f[2] == "m" || ((f[2] == "s" || f[2] == "c") && len(f) == 4)):
				// <pfx>.call <cancelled> <m|s|c> <k>…: ReplicateMultiple / ReplicateSingle / ReplicateComposite
				var ks []int
				for i := 3; i < len(f); i++ {
					ks = append(ks, n(i))
				}
				ks = sortedUnique(ks)
				w.phase++
				c := w.spawn(f[2], ks, f[1] == "1")
				kinds[c.id] = f[2]
				c.started = now
				if queue {
					w.emit(fmt.Sprintf("q.call %s %d %s", f[1], now, showKeys(ks)), fmt.Sprintf("ok %d", c.id))
				} else {
					w.emit(fmt.Sprintf("l.call %s %s %s", f[1], f[2], showKeys(ks)), fmt.Sprintf("ok %d", c.id))
				}
				after(line)
			case f[0] == pfx+".cancel" && len(f) == 2:
				if n(1) >= len(w.callers) || w.callers[n(1)].cancelled || w.wasDone[n(1)] {
					return false
				}
				w.phase++
				w.callers[n(1)].cancelled = true
				w.callers[n(1)].cancel()
				w.emit(line, "ok")
				after(line)
			case f[0] == pfx+".base" && len(f) >= 3:
				if n(1) >= len(w.callers) {
					return false
				}
				g := a.at(n(1))
				if g == nil {
					return false
				}
				w.phase++
				word := "ok"
				var err error
				if f[2] == "err" && len(f) == 5 {
					word = fmt.Sprintf("err %d %d", n(3), n(4))
					err = faultErr(n(3), n(4))
					w.delivered[n(4)] = g.caller
				} else {
					if f[2] == "okn" && !queue {
						word = "okn" // base reports success without having copied
					} else if !queue {
						for _, k := range g.keys {
							sink.data[k] = 1
						}
					}
					ownOK[g.caller] = append([]int{-1}, g.keys...)
					successes = append(successes, success{g.keys, now})
				}
				if queue {
					w.emit(fmt.Sprintf("q.base %d %d %s", g.caller, now, word), "ok")
				} else {
					w.emit(fmt.Sprintf("l.base %d %s", g.caller, word), "ok")
				}
				a.release(g, gateReply{err: err})
				after(line)
			default:
				return false
			}
			return true
		}
		if gen == nil {
			for _, line := range script[1:] {
				if strings.TrimSpace(line) != "" && apply(line) {
					actual = append(actual, line)
				}
			}
		} else {
			steps := gen.Range(6, 26)
			fid := 1
			for i := 0; i < steps; i++ {
				var atBase, live []int
				for _, c := range w.callers {
					if !w.wasDone[c.id] {
						live = append(live, c.id)
						if a.at(c.id) != nil {
							atBase = append(atBase, c.id)
						}
					}
				}
				line := ""
				switch x := gen.Intn(100); {
				case x < 35 && len(w.callers) < 7:
					ks := randKeys(gen, 3)
					if len(ks) == 0 {
						ks = []int{gen.Intn(3)}
					}
					cn := 0
					if gen.Chance(1, 8) {
						cn = 1
					}
					kind := "m"
					if gen.Chance(1, 2) {
						kind = []string{"s", "c"}[gen.Intn(2)]
						ks = ks[:1]
					}
					line = fmt.Sprintf("%s.call %d %s %s", pfx, cn, kind, showKeys(ks))
				case x < 75 && len(atBase) > 0:
					i := atBase[gen.Intn(len(atBase))]
					if gen.Chance(1, 4) {
						fid++
						line = fmt.Sprintf("%s.base %d err %d %d", pfx, i, gen.PickInt(14, 13, 1), fid)
					} else {
						line = fmt.Sprintf("%s.base %d ok", pfx, i)
						if !queue && gen.Chance(1, 6) {
							line = fmt.Sprintf("l.base %d okn", i)
						}
					}
				case x < 88 && len(live) > 0:
					line = fmt.Sprintf("%s.cancel %d", pfx, live[gen.Intn(len(live))])
				case queue:
					// around the expiry of an earlier success, or a small step
					t := now + gen.Intn(3)
					if len(successes) > 0 && gen.Chance(1, 2) {
						t = successes[gen.Intn(len(successes))].t + p2 + gen.PickInt(-1, 0, 1)
					}
					line = fmt.Sprintf("q.clock %d", t)
				}
				if line != "" && apply(line) {
					actual = append(actual, line)
				}
			}
		}
		w.drain(func(g *gateCall) { a.release(g, gateReply{}) })
		limit := p1
		if queue {
			limit = 1
		}
		if a.maxBase > limit {
			res.fail("more concurrent base calls than configured", fmt.Sprintf("observed %d concurrent base calls, limit %d", a.maxBase, limit))
		}
		res.nontrivial = len(w.callers) >= 2 && len(actual) >= 6
	})
	return res, actual
}
