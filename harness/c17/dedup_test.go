package c17

import (
	"fmt"
	"strconv"
	"strings"
	"testing"

	"github.com/buildbarn/bb-storage/pkg/blobstore/replication"

	"verifharness/hx"
)

const dedupKeys = 3

// runDedup runs one schedule of the deduplicating replicator inside a synctest bubble.  With
// gen != nil the schedule is produced online (only enabled actions are chosen) and returned;
// otherwise the lines of script are replayed (lines that are not enabled are skipped).
func runDedup(t *testing.T, script []string, gen *hx.Rand) (*caseResult, []string) {
	res := &caseResult{}
	actual := []string{"#cfg dedup"}
	bubble(t, res, func(t *testing.T) {
		a := newArena()
		w := &world{a: a, kind: "d", res: res, wasDone: map[int]bool{}, delivered: map[int]int{}}
		w.repl = replication.NewDeduplicatingBlobReplicator(gatedBase{a}, gatedSink{a}, keyFormat)
		sinkData := map[int]bool{}
		hist := []map[int]bool{{}} // hist[p]: sink contents after phase p
		snapshot := func() {
			m := map[int]bool{}
			for k := range sinkData {
				m[k] = true
			}
			hist = append(hist, m)
		}
		w.emit("d.init", "ok")
		prevObs := map[int]string{}
		// after performs the bookkeeping common to all phases
		after := func(line string, cancelled int) {
			obs, settle, newly := w.observe()
			w.emit("d.settle"+settle, obs)
			snapshot()
			perKey := map[int][]int{}
			cur := map[int]string{}
			for id, st := range w.states {
				cur[id] = st
				if g := a.at(id); g != nil {
					for _, k := range g.keys {
						perKey[k] = append(perKey[k], id)
					}
				}
			}
			for k, ids := range perKey {
				if len(ids) > 1 {
					res.fail("two callers are in the leader phase (sink check or copy) for the same object at once",
						fmt.Sprintf("after %q: object %d: callers %v", line, k, ids))
				}
			}
			if cancelled >= 0 {
				for id, st := range prevObs {
					if id != cancelled && cur[id] != st {
						res.fail("cancelling one waiter changed the state of another caller",
							fmt.Sprintf("%q: caller %d: %s -> %s", line, id, st, cur[id]))
					}
				}
			}
			prevObs = cur
			for _, c := range newly {
				if c.result == nil {
					for _, k := range c.keys {
						seen := false
						for p := c.start - 1; p <= w.phase && p < len(hist); p++ {
							if p >= 0 && hist[p][k] {
								seen = true
							}
						}
						if !seen {
							res.fail("a caller got OK for an object the sink never held between its call and its return",
								fmt.Sprintf("caller %d (digests %v, phases %d..%d): object %d", c.id, c.keys, c.start, w.phase, k))
						}
					}
					continue
				}
				ce := canonErr(c.result)
				if ce == "err 1 0" {
					if !c.cancelled {
						res.fail("a caller whose context was not cancelled returned CANCELLED", fmt.Sprintf("caller %d", c.id))
					}
					continue
				}
				id, _ := strconv.Atoi(strings.Fields(ce)[2])
				if owner, ok := w.delivered[id]; !ok || owner != c.id {
					res.fail("a caller returned an error that was produced for another caller's sink check or copy",
						fmt.Sprintf("caller %d returned %q, fault %d was handed to caller %d", c.id, ce, id, owner))
				}
			}
		}
		apply := func(line string) bool {
			f := strings.Fields(line)
			n := func(i int) int { v, _ := strconv.Atoi(f[i]); return v }
			switch {
			case (f[0] == "d.call" && len(f) >= 3) || ((f[0] == "d.calls" || f[0] == "d.callc") && len(f) == 3):
				// d.call: ReplicateMultiple; d.calls / d.callc: ReplicateSingle / ReplicateComposite of one object
				var ks []int
				for i := 2; i < len(f); i++ {
					ks = append(ks, n(i))
				}
				ks = sortedUnique(ks)
				w.phase++
				c := w.spawn(map[string]string{"d.call": "m", "d.calls": "s", "d.callc": "c"}[f[0]], ks, f[1] == "1")
				w.emit(fmt.Sprintf("d.call %s %s", f[1], showKeys(ks)), fmt.Sprintf("ok %d", c.id))
				after(line, -1)
			case f[0] == "d.cancel" && len(f) == 2:
				if n(1) >= len(w.callers) || w.callers[n(1)].cancelled || w.wasDone[n(1)] {
					return false
				}
				c := w.callers[n(1)]
				waiter := a.at(c.id) == nil
				w.phase++
				c.cancelled = true
				c.cancel()
				w.emit(line, "ok")
				if waiter {
					after(line, c.id)
				} else {
					after(line, -1)
				}
			case f[0] == "d.sink" && len(f) >= 3:
				if n(1) >= len(w.callers) {
					return false
				}
				g := a.at(n(1))
				if g == nil || g.kind != "sink" {
					return false
				}
				w.phase++
				if f[2] == "err" && len(f) == 5 {
					w.delivered[n(4)] = g.caller
					w.emit(fmt.Sprintf("d.sink %d err %d %d", g.caller, n(3), n(4)), "ok")
					a.release(g, gateReply{err: faultErr(n(3), n(4))})
				} else {
					var missing []int
					for _, k := range g.keys {
						if !sinkData[k] {
							missing = append(missing, k)
						}
					}
					word := "present"
					if len(missing) > 0 {
						word = "missing"
					}
					w.emit(fmt.Sprintf("d.sink %d %s", g.caller, word), "ok")
					a.release(g, gateReply{missing: missing})
				}
				after(line, -1)
			case f[0] == "d.copy" && len(f) >= 3:
				if n(1) >= len(w.callers) {
					return false
				}
				g := a.at(n(1))
				if g == nil || g.kind != "base" {
					return false
				}
				w.phase++
				if f[2] == "err" && len(f) == 5 {
					w.delivered[n(4)] = g.caller
					w.emit(fmt.Sprintf("d.copy %d err %d %d", g.caller, n(3), n(4)), "ok")
					a.release(g, gateReply{err: faultErr(n(3), n(4))})
				} else {
					for _, k := range g.keys {
						sinkData[k] = true
					}
					w.emit(fmt.Sprintf("d.copy %d ok", g.caller), "ok")
					a.release(g, gateReply{})
				}
				after(line, -1)
			case f[0] == "d.evict" && len(f) == 2:
				w.phase++
				delete(sinkData, n(1))
				snapshot()
			case f[0] == "d.seed" && len(f) == 2:
				w.phase++
				sinkData[n(1)] = true
				snapshot()
			default:
				return false
			}
			return true
		}
		if gen == nil {
			for _, line := range script[1:] {
				if strings.TrimSpace(line) != "" && apply(line) {
					actual = append(actual, line)
				}
			}
		} else {
			steps := gen.Range(6, 28)
			fid := 1
			for i := 0; i < steps; i++ {
				line := genDedupAction(gen, w, &fid)
				if line != "" && apply(line) {
					actual = append(actual, line)
				}
			}
		}
		w.drain(func(g *gateCall) {
			if g.kind == "sink" {
				var missing []int
				for _, k := range g.keys {
					if !sinkData[k] {
						missing = append(missing, k)
					}
				}
				a.release(g, gateReply{missing: missing})
			} else {
				for _, k := range g.keys {
					sinkData[k] = true
				}
				a.release(g, gateReply{})
			}
		})
		if a.maxPerKey > 1 {
			res.fail("more than one concurrent base copy of the same object", fmt.Sprintf("max concurrent copies per object: %d", a.maxPerKey))
		}
		res.nontrivial = len(w.callers) >= 2 && len(actual) >= 6
	})
	return res, actual
}

// genDedupAction picks an enabled environment action.
func genDedupAction(r *hx.Rand, w *world, fid *int) string {
	var atSink, atBase, live []int
	for _, c := range w.callers {
		if w.wasDone[c.id] {
			continue
		}
		live = append(live, c.id)
		if g := w.a.at(c.id); g != nil {
			if g.kind == "sink" {
				atSink = append(atSink, c.id)
			} else {
				atBase = append(atBase, c.id)
			}
		}
	}
	for tries := 0; tries < 8; tries++ {
		switch x := r.Intn(100); {
		case x < 30:
			if len(w.callers) >= 6 {
				continue
			}
			ks := randKeys(r, dedupKeys)
			if len(ks) == 0 {
				ks = []int{r.Intn(dedupKeys)}
			}
			cn := 0
			if r.Chance(1, 10) {
				cn = 1
			}
			if r.Chance(1, 3) {
				return fmt.Sprintf("%s %d %d", []string{"d.calls", "d.callc"}[r.Intn(2)], cn, ks[0])
			}
			return fmt.Sprintf("d.call %d %s", cn, showKeys(ks))
		case x < 55:
			if len(atSink) == 0 {
				continue
			}
			i := atSink[r.Intn(len(atSink))]
			if r.Chance(1, 4) {
				*fid++
				return fmt.Sprintf("d.sink %d err %d %d", i, r.PickInt(14, 13, 5, 4), *fid)
			}
			return fmt.Sprintf("d.sink %d auto", i)
		case x < 80:
			if len(atBase) == 0 {
				continue
			}
			i := atBase[r.Intn(len(atBase))]
			if r.Chance(1, 3) {
				*fid++
				return fmt.Sprintf("d.copy %d err %d %d", i, r.PickInt(14, 13, 5, 1), *fid)
			}
			return fmt.Sprintf("d.copy %d ok", i)
		case x < 90:
			if len(live) == 0 {
				continue
			}
			i := live[r.Intn(len(live))]
			if w.callers[i].cancelled {
				continue
			}
			return fmt.Sprintf("d.cancel %d", i)
		case x < 96:
			return fmt.Sprintf("d.evict %d", r.Intn(dedupKeys))
		default:
			return fmt.Sprintf("d.seed %d", r.Intn(dedupKeys))
		}
	}
	return ""
}
