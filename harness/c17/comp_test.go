package c17

import (
	"context"
	"fmt"
	"reflect"
	"strconv"
	"strings"

	"github.com/buildbarn/bb-storage/pkg/blobstore"
	"github.com/buildbarn/bb-storage/pkg/blobstore/readcaching"
	"github.com/buildbarn/bb-storage/pkg/blobstore/readfallback"
	"google.golang.org/grpc/codes"

	"verifharness/hx"
)

// caseResult is what one executed case hands back to the test driver.
type caseResult struct {
	modelLines []string // lines for the Lean driver
	impl       []string // the implementation's canonical replies, one per model line
	what       string   // first oracle violation
	detail     string
	nontrivial bool
}

func (r *caseResult) fail(what, detail string) {
	if r.what == "" {
		r.what, r.detail = what, detail
	}
}

const compKeys = 6

// runComp executes a composite case: `#cfg comp <cache|fallback> <repl>` then c.* lines.
func runComp(script []string) *caseResult {
	res := &caseResult{}
	cfg := strings.Fields(script[0])
	if len(cfg) != 4 {
		res.fail("bad-script", "cfg")
		return res
	}
	kind, repl := cfg[2], cfg[3]
	src, sink := newMemBackend(), newMemBackend()
	r := buildRepl(repl, src, sink)
	if r == nil {
		res.fail("bad-script", "repl")
		return res
	}
	var getter blobstore.BlobAccess
	cache := readcaching.NewReadCachingBlobAccess(src, sink, r)
	fb := readfallback.NewReadFallbackBlobAccess(sink, src, r)
	if kind == "cache" {
		getter = cache
	} else {
		getter = fb
	}
	ctx := context.Background()
	emit := func(line, reply string) {
		res.modelLines = append(res.modelLines, line)
		res.impl = append(res.impl, reply)
	}
	emit("c.init "+repl, "ok")
	pick := func(w string) *memBackend {
		if w == "src" {
			return src
		}
		return sink
	}
	ops := 0
	for _, line := range script[1:] {
		w := strings.Fields(line)
		if len(w) == 0 {
			continue
		}
		n := func(i int) int {
			if i >= len(w) {
				return 0
			}
			v, _ := strconv.Atoi(w[i])
			return v
		}
		switch w[0] {
		case "c.set":
			if len(w) == 4 {
				pick(w[1]).data[n(2)] = n(3)
				emit(line, "ok")
			}
		case "c.del":
			if len(w) == 3 {
				delete(pick(w[1]).data, n(2))
				emit(line, "ok")
			}
		case "c.fault":
			if len(w) == 3 && w[2] == "none" {
				b := pick(w[1])
				b.faults = append(b.faults, fault{})
				emit(line, "ok")
			} else if len(w) == 4 {
				b := pick(w[1])
				b.faults = append(b.faults, fault{true, n(2), n(3)})
				emit(line, "ok")
			}
		case "c.get", "c.getc":
			if len(w) != 2 {
				continue
			}
			ops++
			k := n(1)
			srcBefore, sinkBefore := src.snapshot(), sink.snapshot()
			srcCalls := src.calls
			srcFaulty, _ := src.pendingFault()
			sinkFaulty, sinkHead := sink.pendingFault()
			var data []byte
			var err error
			if w[0] == "c.get" {
				data, err = getter.Get(ctx, digestOf(k)).ToByteSlice(1000)
			} else {
				data, err = getter.GetFromComposite(ctx, digestOf(k), digestOf(k+100), nil).ToByteSlice(1000)
			}
			reply := canonErr(err)
			if err == nil {
				reply = fmt.Sprintf("ok %d", valOf(data))
			}
			emit(line, reply)
			// ---- oracle
			if !reflect.DeepEqual(src.snapshot(), srcBefore) {
				res.fail("a read changed the contents of the slow/secondary backend", line)
			}
			for kk, vv := range sinkBefore {
				if kk != k && sink.data[kk] != vv {
					res.fail("a read changed another object of the fast/primary backend", line)
				}
			}
			vSink, inSink := sinkBefore[k]
			vSrc, inSrc := srcBefore[k]
			if err == nil {
				v := valOf(data)
				if !((inSink && v == vSink) || (inSrc && v == vSrc)) {
					res.fail("a read returned an object neither backend held", fmt.Sprintf("%s -> %s", line, reply))
				}
				if copying(repl) {
					if got, ok := sink.data[k]; !ok || got != v {
						res.fail("after a successful read-through with a copying replicator the fast/primary backend does not hold the object",
							fmt.Sprintf("%s -> %s, sink=%s", line, reply, sink.dump(compKeys)))
					}
				}
			}
			if !srcFaulty && !sinkFaulty {
				want := "err 5 0"
				if inSink {
					want = fmt.Sprintf("ok %d", vSink)
				} else if inSrc {
					want = fmt.Sprintf("ok %d", vSrc)
				}
				if reply != want {
					what := "without faults a read of an object that neither backend holds does not report NOT_FOUND"
					if inSink || inSrc {
						what = "without faults a read does not return the object although one of the backends holds it"
					}
					res.fail(what, fmt.Sprintf("%s: got %q want %q (sink has=%v src has=%v)", line, reply, want, inSink, inSrc))
				}
				if !copying(repl) && !reflect.DeepEqual(sink.snapshot(), sinkBefore) {
					res.fail("a read with the noop replicator changed the fast/primary backend", line)
				}
			}
			if sinkHead.some && sinkHead.code != int(codes.NotFound) {
				if want := fmt.Sprintf("err %d %d", sinkHead.code, sinkHead.id); reply != want {
					res.fail("an error other than NOT_FOUND of the first backend was masked", fmt.Sprintf("%s: got %q want %q", line, reply, want))
				}
				if src.calls != srcCalls {
					res.fail("the second backend was called although the first failed with an error other than NOT_FOUND", line)
				}
			}
		case "c.cput", "c.fput":
			if len(w) != 3 {
				continue
			}
			ops++
			target, other := src, sink
			ba := cache
			if w[0] == "c.fput" {
				target, other = sink, src
				ba = fb
			}
			otherBefore, otherCalls := other.snapshot(), other.calls
			_, head := target.pendingFault()
			err := ba.Put(ctx, digestOf(n(1)), bufOf(n(2)))
			emit(line, canonErr(err))
			if other.calls != otherCalls || !reflect.DeepEqual(other.snapshot(), otherBefore) {
				res.fail("an upload touched the backend it must not go to", line)
			}
			if !head.some {
				if got, ok := target.data[n(1)]; err != nil || !ok || got != n(2) {
					res.fail("an upload without faults did not store the object in the slow/primary backend", fmt.Sprintf("%s -> %v", line, err))
				}
			}
		case "c.cfm", "c.ffm":
			ops++
			var ks []int
			for i := 1; i < len(w); i++ {
				ks = append(ks, n(i))
			}
			ks = sortedUnique(ks)
			srcBefore, sinkBefore := src.snapshot(), sink.snapshot()
			srcFaulty, _ := src.pendingFault()
			sinkFaulty, _ := sink.pendingFault()
			sinkCalls := sink.calls
			ba := cache
			if w[0] == "c.ffm" {
				ba = fb
			}
			missing, err := ba.FindMissing(ctx, setOf(ks))
			reply := canonErr(err)
			if err == nil {
				reply = "ok " + showKeys(keysOf(missing))
			}
			emit(w[0]+" "+showKeysOrNothing(ks), reply)
			if !reflect.DeepEqual(src.snapshot(), srcBefore) {
				res.fail("FindMissing changed the contents of the slow/secondary backend", line)
			}
			if w[0] == "c.cfm" {
				if sink.calls != sinkCalls {
					res.fail("read caching FindMissing touched the fast backend", line)
				}
			} else if !srcFaulty && !sinkFaulty {
				var want []int
				for _, k := range ks {
					_, a := srcBefore[k]
					_, b := sinkBefore[k]
					if !a && !b {
						want = append(want, k)
					}
				}
				if reply != "ok "+showKeys(want) {
					res.fail("fallback FindMissing does not report exactly the objects missing from both backends",
						fmt.Sprintf("%s: got %q want %q", line, reply, "ok "+showKeys(want)))
				}
				if copying(repl) {
					for _, k := range ks {
						if _, a := srcBefore[k]; a {
							if _, b := sink.data[k]; !b {
								res.fail("fallback FindMissing with a copying replicator left an object only in the secondary", line)
							}
						}
					}
				}
			}
		case "c.repl":
			// the replicator on its own: ReplicateMultiple from the slow/secondary into the fast/primary backend
			ops++
			var ks []int
			for i := 1; i < len(w); i++ {
				ks = append(ks, n(i))
			}
			ks = sortedUnique(ks)
			srcBefore, sinkBefore := src.snapshot(), sink.snapshot()
			err := r.ReplicateMultiple(ctx, setOf(ks))
			emit("c.repl "+showKeysOrNothing(ks), canonErr(err))
			if !reflect.DeepEqual(src.snapshot(), srcBefore) {
				res.fail("replication changed the contents of its source", line)
			}
			for kk, vv := range sink.snapshot() {
				if old, had := sinkBefore[kk]; (!had || old != vv) && srcBefore[kk] != vv {
					res.fail("replication stored something in the sink that the source did not hold", line)
				}
			}
			if err == nil && copying(repl) {
				for _, k := range ks {
					if _, ok := sink.data[k]; !ok {
						res.fail("a copying replicator reported success although the sink does not hold the object",
							fmt.Sprintf("%s -> ok, object %d, sink=%s", line, k, sink.dump(compKeys)))
					}
				}
			}
		case "c.dump":
			emit(fmt.Sprintf("c.dump %d", compKeys), fmt.Sprintf("src:%s sink:%s", src.dump(compKeys), sink.dump(compKeys)))
		}
	}
	emit(fmt.Sprintf("c.dump %d", compKeys), fmt.Sprintf("src:%s sink:%s", src.dump(compKeys), sink.dump(compKeys)))
	res.nontrivial = ops >= 3
	return res
}

func sortedUnique(ks []int) []int {
	m := map[int]bool{}
	for _, k := range ks {
		m[k] = true
	}
	return keysSorted(m)
}

func showKeysOrNothing(ks []int) string {
	if len(ks) == 0 {
		return ""
	}
	return showKeys(ks)
}

func genComp(r *hx.Rand) []string {
	kinds := []string{"cache", "fallback"}
	repls := []string{"noop", "local", "local", "dedup.local", "limit.local", "dedup.limit.local", "limit.dedup.local", "dedup.dedup.local"}
	script := []string{fmt.Sprintf("#cfg comp %s %s", kinds[r.Intn(2)], repls[r.Intn(len(repls))])}
	codesPool := []int{5, 5, 14, 13, 4, 2, 10}
	fid := 1
	faulty := r.Chance(1, 2)
	nops := r.Range(4, 14)
	for i := 0; i < nops; i++ {
		k := r.Intn(compKeys)
		switch x := r.Intn(100); {
		case x < 18:
			script = append(script, fmt.Sprintf("c.set %s %d %d", []string{"src", "sink"}[r.Intn(2)], k, r.Range(1, 99)))
		case x < 24:
			script = append(script, fmt.Sprintf("c.del %s %d", []string{"src", "sink"}[r.Intn(2)], k))
		case x < 40 && faulty:
			w := []string{"src", "sink"}[r.Intn(2)]
			if r.Chance(1, 4) {
				script = append(script, fmt.Sprintf("c.fault %s none", w))
			} else {
				script = append(script, fmt.Sprintf("c.fault %s %d %d", w, codesPool[r.Intn(len(codesPool))], fid))
				fid++
			}
		case x < 65:
			script = append(script, fmt.Sprintf("c.get %d", k))
		case x < 75:
			script = append(script, fmt.Sprintf("c.getc %d", k))
		case x < 82:
			script = append(script, fmt.Sprintf("c.cput %d %d", k, r.Range(1, 99)))
		case x < 88:
			script = append(script, fmt.Sprintf("c.fput %d %d", k, r.Range(1, 99)))
		case x < 91:
			script = append(script, "c.cfm "+showKeysOrNothing(randKeys(r, compKeys)))
		case x < 95:
			script = append(script, "c.repl "+showKeysOrNothing(randKeys(r, compKeys)))
		default:
			script = append(script, "c.ffm "+showKeysOrNothing(randKeys(r, compKeys)))
		}
	}
	return script
}

func randKeys(r *hx.Rand, n int) []int {
	var ks []int
	for k := 0; k < n; k++ {
		if r.Chance(1, 2) {
			ks = append(ks, k)
		}
	}
	return ks
}
