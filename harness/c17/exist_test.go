package c17

import (
	"context"
	"fmt"
	"sort"
	"strconv"
	"strings"
	"time"

	"github.com/buildbarn/bb-storage/pkg/blobstore"
	"github.com/buildbarn/bb-storage/pkg/blobstore/buffer"
	"github.com/buildbarn/bb-storage/pkg/digest"
	"github.com/buildbarn/bb-storage/pkg/eviction"

	"verifharness/hx"
)

func bufOf(v int) buffer.Buffer { return buffer.NewValidatedBufferFromByteSlice(valBytes(v)) }

func keysSorted(m map[int]bool) []int {
	var ks []int
	for k := range m {
		ks = append(ks, k)
	}
	sort.Ints(ks)
	return ks
}

// presentReport is one observation "the backend was asked about k in a call that ended at
// clock reading t and did not report it missing".
type presentReport struct{ t int }

// runExist executes `#cfg exist <cap> <dur>` then e.* lines against the real
// ExistenceCachingBlobAccess over digest.NewExistenceCache(..., eviction.NewLRUSet).
func runExist(script []string) *caseResult {
	res := &caseResult{}
	cfg := strings.Fields(script[0])
	if len(cfg) != 4 {
		res.fail("bad-script", "cfg")
		return res
	}
	capN, _ := strconv.Atoi(cfg[2])
	dur, _ := strconv.Atoi(cfg[3])
	if capN < 1 {
		res.fail("bad-script", "cap")
		return res
	}
	clk := &fakeClock{}
	backend := newMemBackend()
	ec := digest.NewExistenceCache(clk, keyFormat, capN, time.Duration(dur)*time.Second, eviction.NewLRUSet[string]())
	ba := blobstore.NewExistenceCachingBlobAccess(backend, ec)
	emit := func(line, reply string) {
		res.modelLines = append(res.modelLines, line)
		res.impl = append(res.impl, reply)
	}
	emit(fmt.Sprintf("e.init %d %d", capN, dur), "ok")
	reports := map[int][]presentReport{}
	fms := 0
	for _, line := range script[1:] {
		w := strings.Fields(line)
		if len(w) == 0 {
			continue
		}
		n := func(i int) int { v, _ := strconv.Atoi(w[i]); return v }
		switch w[0] {
		case "e.set":
			if len(w) == 2 {
				backend.data[n(1)] = 1
				emit(line, "ok")
			}
		case "e.del":
			if len(w) == 2 {
				delete(backend.data, n(1))
				emit(line, "ok")
			}
		case "e.fault":
			if len(w) == 2 && w[1] == "none" {
				backend.faults = append(backend.faults, fault{})
				emit(line, "ok")
			} else if len(w) == 3 {
				backend.faults = append(backend.faults, fault{true, n(1), n(2)})
				emit(line, "ok")
			}
		case "e.fm":
			if len(w) < 3 {
				continue
			}
			fms++
			now1, now2 := n(1), n(2)
			var ks []int
			for i := 3; i < len(w); i++ {
				ks = append(ks, n(i))
			}
			ks = sortedUnique(ks)
			clk.set(now1)
			backend.onFind = func() { clk.set(now2) }
			nAsked := len(backend.asked)
			truth := backend.snapshot()
			missing, err := ba.FindMissing(context.Background(), setOf(ks))
			backend.onFind = nil
			var asked []int
			if len(backend.asked) == nAsked+1 {
				asked = backend.asked[nAsked]
			} else {
				res.fail("the backend was not asked exactly once per FindMissing", line)
			}
			reply := canonErr(err)
			if err == nil {
				reply = "ok " + showKeys(keysOf(missing))
			}
			emit(fmt.Sprintf("e.fm %d %d %s", now1, now2, showKeysOrNothing(ks)), reply+" / asked "+showKeys(asked))
			// ---- oracle: every digest not passed on to the backend needs a fresh enough report
			askedSet := map[int]bool{}
			for _, k := range asked {
				askedSet[k] = true
			}
			hidden := 0
			for _, k := range ks {
				if askedSet[k] {
					continue
				}
				hidden++
				ok := false
				for _, rp := range reports[k] {
					if now1 <= rp.t+dur {
						ok = true
					}
				}
				if !ok {
					res.fail("the existence cache hid a digest without a report of presence within the configured duration",
						fmt.Sprintf("%s: digest %d hidden at %d, reports %v, duration %d", line, k, now1, reports[k], dur))
				}
			}
			if hidden > capN {
				res.fail("the existence cache hid more digests than its size", fmt.Sprintf("%s: %d > %d", line, hidden, capN))
			}
			for _, k := range asked {
				found := false
				for _, q := range ks {
					if q == k {
						found = true
					}
				}
				if !found {
					res.fail("the backend was asked about a digest that was not requested", line)
				}
			}
			if err == nil {
				// the answer: exactly the asked digests the backend lacks
				var want []int
				for _, k := range asked {
					if _, ok := truth[k]; !ok {
						want = append(want, k)
					}
				}
				if showKeys(keysOf(missing)) != showKeys(want) {
					res.fail("FindMissing through the existence cache differs from the backend's answer for the digests passed on",
						fmt.Sprintf("%s: got %s want %s", line, showKeys(keysOf(missing)), showKeys(want)))
				}
				for _, k := range asked {
					if _, ok := truth[k]; ok {
						reports[k] = append(reports[k], presentReport{now2})
					}
				}
			}
		}
	}
	res.nontrivial = fms >= 3
	return res
}

func genExist(r *hx.Rand) []string {
	capN := r.PickInt(1, 1, 2, 2, 3)
	dur := r.PickInt(0, 1, 5, 10)
	nkeys := r.Range(2, 5)
	script := []string{fmt.Sprintf("#cfg exist %d %d", capN, dur)}
	for k := 0; k < nkeys; k++ {
		if r.Chance(2, 3) {
			script = append(script, fmt.Sprintf("e.set %d", k))
		}
	}
	now := r.Range(0, 20)
	var addTimes []int
	nops := r.Range(4, 16)
	for i := 0; i < nops; i++ {
		switch x := r.Intn(100); {
		case x < 10:
			script = append(script, fmt.Sprintf("e.set %d", r.Intn(nkeys)))
		case x < 22:
			script = append(script, fmt.Sprintf("e.del %d", r.Intn(nkeys)))
		case x < 28:
			script = append(script, fmt.Sprintf("e.fault %d %d", r.PickInt(14, 5, 13), i+1))
		default:
			// pick the clock: around an expiry boundary of an earlier Add, a small step, or a jump
			switch y := r.Intn(10); {
			case y < 5 && len(addTimes) > 0:
				now = addTimes[r.Intn(len(addTimes))] + dur + r.PickInt(-1, 0, 0, 1)
				if now < 0 {
					now = 0
				}
			case y < 8:
				now += r.Intn(3)
			case y < 9:
				now += dur + r.Range(0, 3)
			default:
				if now > 2 {
					now -= r.Range(1, 2) // a clock stepping back
				}
			}
			now2 := now
			if r.Chance(1, 4) {
				now2 = now + r.Range(1, 3) // the backend call takes time
			}
			ks := randKeys(r, nkeys)
			if len(ks) == 0 {
				ks = []int{r.Intn(nkeys)}
			}
			script = append(script, fmt.Sprintf("e.fm %d %d %s", now, now2, showKeys(ks)))
			addTimes = append(addTimes, now2)
			now = now2
		}
	}
	return script
}
