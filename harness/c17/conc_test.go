package c17

import (
	"context"
	"fmt"
	"sort"
	"strings"
	"sync"
	"testing"
	"testing/synctest"

	remoteexecution "github.com/bazelbuild/remote-apis/build/bazel/remote/execution/v2"
	"github.com/buildbarn/bb-storage/pkg/blobstore/buffer"
	"github.com/buildbarn/bb-storage/pkg/blobstore/replication"
	"github.com/buildbarn/bb-storage/pkg/blobstore/slicing"
	"github.com/buildbarn/bb-storage/pkg/digest"
)

// ---------------------------------------------------------------- gates

type callerKey struct{}

type gateReply struct {
	err     error
	missing []int // sink gate: what FindMissing reports
}

type gateCall struct {
	kind   string // "sink" | "base"
	caller int
	keys   []int
	seq    int
	ch     chan gateReply
}

// arena holds the calls of the code under test that are blocked in the harness.
type arena struct {
	mu         sync.Mutex
	pending    []*gateCall
	seq        int
	baseActive map[int]int // key -> concurrent base calls containing it
	baseCalls  int         // concurrent base calls
	maxPerKey  int
	maxBase    int
}

func newArena() *arena { return &arena{baseActive: map[int]int{}} }

func (a *arena) block(kind string, ctx context.Context, keys []int) gateReply {
	id, _ := ctx.Value(callerKey{}).(int)
	g := &gateCall{kind: kind, caller: id, keys: keys, ch: make(chan gateReply, 1)}
	a.mu.Lock()
	a.seq++
	g.seq = a.seq
	a.pending = append(a.pending, g)
	if kind == "base" {
		a.baseCalls++
		if a.baseCalls > a.maxBase {
			a.maxBase = a.baseCalls
		}
		for _, k := range keys {
			a.baseActive[k]++
			if a.baseActive[k] > a.maxPerKey {
				a.maxPerKey = a.baseActive[k]
			}
		}
	}
	a.mu.Unlock()
	r := <-g.ch // never holds a mutex while blocked
	if kind == "base" {
		a.mu.Lock()
		a.baseCalls--
		for _, k := range keys {
			a.baseActive[k]--
		}
		a.mu.Unlock()
	}
	return r
}

// at returns the pending call of a caller (nil if it is not at a gate).
func (a *arena) at(caller int) *gateCall {
	a.mu.Lock()
	defer a.mu.Unlock()
	for _, g := range a.pending {
		if g.caller == caller {
			return g
		}
	}
	return nil
}

func (a *arena) release(g *gateCall, r gateReply) {
	a.mu.Lock()
	for i, x := range a.pending {
		if x == g {
			a.pending = append(a.pending[:i], a.pending[i+1:]...)
			break
		}
	}
	a.mu.Unlock()
	g.ch <- r
}

// gatedSink is the sink of the deduplicating replicator: FindMissing blocks in the arena.
type gatedSink struct{ a *arena }

// Get / GetFromComposite are the read-back of ReplicateSingle / ReplicateComposite; they always
// succeed, so that the caller's result is the result of the replication protocol itself.
func (s gatedSink) Get(ctx context.Context, d digest.Digest) buffer.Buffer {
	return buffer.NewValidatedBufferFromByteSlice([]byte("v1"))
}

func (s gatedSink) GetFromComposite(ctx context.Context, p, c digest.Digest, sl slicing.BlobSlicer) buffer.Buffer {
	return buffer.NewValidatedBufferFromByteSlice([]byte("v1"))
}

func (s gatedSink) Put(ctx context.Context, d digest.Digest, b buffer.Buffer) error {
	panic("gatedSink.Put: the deduplicating replicator copies through base only")
}

func (s gatedSink) FindMissing(ctx context.Context, ds digest.Set) (digest.Set, error) {
	r := s.a.block("sink", ctx, keysOf(ds))
	if r.err != nil {
		return digest.EmptySet, r.err
	}
	return setOf(r.missing), nil
}

func (s gatedSink) GetCapabilities(ctx context.Context, i digest.InstanceName) (*remoteexecution.ServerCapabilities, error) {
	return &remoteexecution.ServerCapabilities{}, nil
}

// gatedBase is the wrapped replicator: ReplicateMultiple blocks in the arena.
type gatedBase struct{ a *arena }

func (b gatedBase) ReplicateSingle(ctx context.Context, d digest.Digest) buffer.Buffer {
	panic("gatedBase.ReplicateSingle")
}

func (b gatedBase) ReplicateComposite(ctx context.Context, p, c digest.Digest, sl slicing.BlobSlicer) buffer.Buffer {
	panic("gatedBase.ReplicateComposite")
}

func (b gatedBase) ReplicateMultiple(ctx context.Context, ds digest.Set) error {
	return b.a.block("base", ctx, keysOf(ds)).err
}

// bubble runs f in a synctest bubble.  If goroutines of the code under test are still blocked
// when f returns (after the drain cancelled every context), synctest panics; that is a finding,
// not a crash of the harness.
func bubble(t *testing.T, res *caseResult, f func(t *testing.T)) {
	defer func() {
		if p := recover(); p != nil {
			res.fail("goroutines of the code under test stay blocked forever after all calls were released and all contexts cancelled",
				fmt.Sprint(p))
		}
	}()
	synctest.Test(t, f)
}

// ---------------------------------------------------------------- callers

type caller struct {
	id        int
	keys      []int
	ctx       context.Context
	cancel    context.CancelFunc
	cancelled bool
	done      bool
	result    error
	start     int // phase of the call
	end       int
	started   int // clock reading at the call (queue)
}

// world is one concurrent case in flight.
type world struct {
	a       *arena
	repl    replication.BlobReplicator
	mu      sync.Mutex
	callers []*caller
	phase   int
	lastSeq int
	wasDone map[int]bool
	states  map[int]string // caller -> state at the last observation
	kind    string // "d" | "l" | "q"
	res     *caseResult
	// independent bookkeeping for the oracle
	delivered map[int]int // fault id -> caller it was handed to
}

// entry returns the call a caller makes: kind "m" ReplicateMultiple(keys), "s" ReplicateSingle and
// "c" ReplicateComposite of keys[0] (the returned buffer is consumed).
func (w *world) entry(kind string, keys []int) func(ctx context.Context) error {
	switch kind {
	case "s":
		return func(ctx context.Context) error {
			_, err := w.repl.ReplicateSingle(ctx, digestOf(keys[0])).ToByteSlice(1000)
			return err
		}
	case "c":
		return func(ctx context.Context) error {
			_, err := w.repl.ReplicateComposite(ctx, digestOf(keys[0]), digestOf(keys[0]+100), nil).ToByteSlice(1000)
			return err
		}
	}
	return func(ctx context.Context) error { return w.repl.ReplicateMultiple(ctx, setOf(keys)) }
}

func (w *world) spawn(kind string, keys []int, cancelled bool) *caller {
	c := &caller{id: len(w.callers), keys: keys, start: w.phase}
	ctx, cancel := context.WithCancel(context.WithValue(context.Background(), callerKey{}, c.id))
	c.ctx, c.cancel = ctx, cancel
	if cancelled {
		cancel()
		c.cancelled = true
	}
	w.callers = append(w.callers, c)
	call := w.entry(kind, keys)
	go func() {
		err := call(ctx)
		w.mu.Lock()
		c.done, c.result = true, err
		w.mu.Unlock()
	}()
	return c
}

func (w *world) isDone(c *caller) (bool, error) {
	w.mu.Lock()
	defer w.mu.Unlock()
	return c.done, c.result
}

func joinInts(ks []int) string {
	s := make([]string, len(ks))
	for i, k := range ks {
		s[i] = fmt.Sprint(k)
	}
	return strings.Join(s, ",")
}

// observe waits for quiescence and renders every caller's state the way the Lean driver does;
// it also returns the settle directive (priorities and aborters) derived from what was seen.
func (w *world) observe() (obs string, settle string, newlyDone []*caller) {
	synctest.Wait()
	var parts []string
	states := map[int]string{}
	defer func() { w.states = states }()
	type arrival struct{ seq, id int }
	var arrivals []arrival
	var aborters []int
	holders := 0
	for _, c := range w.callers {
		done, result := w.isDone(c)
		st := "wait"
		if done {
			st = "ret(" + canonErr(result) + ")"
			if !w.wasDone[c.id] {
				w.wasDone[c.id] = true
				c.end = w.phase
				newlyDone = append(newlyDone, c)
				if canonErr(result) == "err 1 0" {
					aborters = append(aborters, c.id)
				}
			}
		} else if g := w.a.at(c.id); g != nil {
			switch {
			case w.kind == "d" && g.kind == "sink":
				st = fmt.Sprintf("sink(%s)", joinInts(g.keys))
			case w.kind == "d":
				st = fmt.Sprintf("copy(%s)", joinInts(g.keys))
			case w.kind == "l":
				st = "base"
			default:
				st = fmt.Sprintf("base(%s)", joinInts(g.keys))
			}
			if g.kind == "base" {
				holders++
			}
			if g.seq > w.lastSeq {
				arrivals = append(arrivals, arrival{g.seq, c.id})
			}
		}
		parts = append(parts, fmt.Sprintf("%d:%s", c.id, st))
		states[c.id] = st
	}
	w.a.mu.Lock()
	w.lastSeq = w.a.seq
	w.a.mu.Unlock()
	sort.Slice(arrivals, func(i, j int) bool { return arrivals[i].seq < arrivals[j].seq })
	settle = ""
	if len(arrivals) > 0 {
		settle += " p"
		for _, x := range arrivals {
			settle += fmt.Sprint(" ", x.id)
		}
	}
	if len(aborters) > 0 {
		settle += " a"
		for _, x := range aborters {
			settle += fmt.Sprint(" ", x)
		}
	}
	obs = "-"
	if len(parts) > 0 {
		obs = strings.Join(parts, " ")
	}
	switch w.kind {
	case "l":
		obs += fmt.Sprintf(" held=%d", holders)
	case "q":
		obs += fmt.Sprintf(" token=%v", holders == 0)
	}
	return obs, settle, newlyDone
}

func (w *world) emit(line, reply string) {
	w.res.modelLines = append(w.res.modelLines, line)
	w.res.impl = append(w.res.impl, reply)
}

// drain releases everything with success until all callers have returned; callers that cannot be
// brought to return are reported and then freed by cancelling their contexts.
func (w *world) drain(release func(g *gateCall)) {
	for round := 0; round < 200; round++ {
		synctest.Wait()
		w.a.mu.Lock()
		var g *gateCall
		if len(w.a.pending) > 0 {
			g = w.a.pending[0]
		}
		w.a.mu.Unlock()
		if g == nil {
			break
		}
		release(g)
	}
	synctest.Wait()
	for _, c := range w.callers {
		if done, _ := w.isDone(c); !done && !c.cancelled {
			w.res.fail("a caller never returned although every sink and base call was released",
				fmt.Sprintf("caller %d (digests %v) is still blocked after the drain", c.id, c.keys))
		}
	}
	for _, c := range w.callers {
		c.cancel()
	}
	synctest.Wait()
	// anything still at a gate now was started after a cancellation
	for round := 0; round < 200; round++ {
		w.a.mu.Lock()
		var g *gateCall
		if len(w.a.pending) > 0 {
			g = w.a.pending[0]
		}
		w.a.mu.Unlock()
		if g == nil {
			break
		}
		release(g)
		synctest.Wait()
	}
}
