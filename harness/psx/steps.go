package psx

import (
	"fmt"
	"strconv"
	"strings"
	"time"
)

// Enabled reports which syncer steps the real store can take now.
func (r *Runner) Enabled() []string {
	var e []string
	switch r.g1pc {
	case "idle":
		if r.St.G1Awake() && !r.cancelled {
			e = append(e, "g1.start")
		}
	case "started":
		e = append(e, "sync.begin")
	case "syncing":
		e = append(e, "sync.end", "sync.fail")
	case "synced":
		e = append(e, "g1.completed")
	case "want":
		if r.swOwner == 0 && !r.g1queued {
			e = append(e, "sw.begin 1") // retry after a failed state write
		}
	}
	if r.swOwner == 0 && !r.g1queued && !r.g2queued && (r.g2retry != nil || r.St.G2Wanted()) && !(r.g1pc == "want") {
		e = append(e, "sw.begin 2")
	}
	if r.swOwner != 0 {
		if r.swStage < 6 {
			e = append(e, "sw.step", "sw.fail")
		} else {
			e = append(e, "sw.done")
		}
	}
	if r.swOwner == 1 && !r.g2queued && r.g2retry == nil && r.St.G2Wanted() {
		// ProcessBlockRelease wakes up while ProcessBlockPut is writing the state: it queues on storeLock
		e = append(e, "g2.wake")
	}
	if !r.cancelled {
		e = append(e, "shutdown")
	}
	return e
}

func (r *Runner) G1PC() string { return r.g1pc }

// toStarted brings G1 from its wait to the first gate of notifyAndSyncDataLocked(false).
func (r *Runner) toStarted(fire bool) bool {
	if r.St.G1Awake() {
		e, ok := r.expect(r.St.G1Ev, "timer")
		if !ok {
			return false
		}
		if fire {
			e.Resume(nil)
		} else {
			e.Resume(errNoFire)
		}
	}
	e, ok := r.expect(r.St.G1Ev, "datasync")
	if !ok {
		return false
	}
	r.g1park, r.g1pc, r.g1final = &e, "started", false
	r.iterShutdown = r.cancelled
	r.commitInProgress, r.dirtySinceCommitStart, r.CommitClean = true, false, false
	r.record("g1.start", "ok", r.model("g1.start"))
	return true
}

// swBegun handles the owner's arrival at WritePersistentState.
func (r *Runner) swBegun(owner int, e Event) bool {
	impl := renderState(e.State, r.Cfg.BlockSize())
	r.record(fmt.Sprintf("sw.begin %d", owner), impl, r.model(fmt.Sprintf("sw.begin %d", owner)))
	e.Resume(nil)
	ch := r.St.G1Ev
	if owner == 2 {
		ch = r.St.G2Ev
	}
	g, ok := r.dirGate(ch, "dir:remove")
	if !ok {
		return false
	}
	r.swOwner, r.swStage, r.swPark = owner, 0, &g
	return true
}

var dirOps = []string{"dir:remove", "dir:create", "dir:write", "dir:fsync", "dir:rename", "dir:dirsync", "sw-end"}

// Step executes one script line on the real store and the model.
func (r *Runner) Step(line string) {
	if r.Failed || r.drained {
		return
	}
	r.Script = append(r.Script, line)
	defer r.checkOrder()
	w := strings.Fields(line)
	r.Run.Count("step " + w[0])
	n := func(i int) int { v, _ := strconv.Atoi(w[i]); return v }
	switch w[0] {
	case "put.begin": // put.begin <op> <obj> <size>
		op, obj, size := n(1), n(2), n(3)
		r.sizes[obj] = size
		r.Tried[obj] = true
		r.declare(r.St, obj)
		o := r.startOp(op, obj, "put")
		res, fin, ok := r.advance(o)
		if !ok {
			return
		}
		m := r.model(fmt.Sprintf("put.begin %d %d %d", op, obj, size))
		if fin {
			delete(r.ops, op)
			if m == "closed" {
				m = r.model(fmt.Sprintf("put.end %d", op))
			}
			r.Run.Count("put.begin: " + res.reply)
			r.record(line, "fail "+res.reply, "fail "+m)
			if r.finalBegun && res.reply != "err unavailable" {
				r.fail("oracle", "an upload started after the final sync began was not refused with UNAVAILABLE", line+": "+res.reply)
			}
			return
		}
		if r.g1pc == "finished" || r.finalBegun {
			r.fail("oracle", "an upload started after the final sync began was not refused with UNAVAILABLE", line+": space was allocated")
			o.park.Resume(nil)
			return
		}
		o.stage = m // remember "ok <slot> <off>"
		if strings.HasPrefix(m, "ok ") {
			m = "ok"
		}
		r.record(line, "ok", m)
	case "put.copy":
		o := r.ops[n(1)]
		if o == nil || o.park == nil || o.park.Kind != "allocated" {
			return
		}
		place := o.stage
		o.park.Resume(nil)
		if _, _, ok := r.advance(o); !ok {
			return
		}
		o.stage = place
		r.dirtySinceCommitStart, r.CommitClean = true, false
		r.record(line, "ok", r.model(fmt.Sprintf("put.copy %d %d", n(1), o.obj)))
	case "put.end":
		o := r.ops[n(1)]
		if o == nil || o.park == nil || o.park.Kind != "copied" {
			return
		}
		place := o.stage
		o.park.Resume(nil)
		res, fin, ok := r.advance(o)
		if !ok || !fin {
			return
		}
		delete(r.ops, n(1))
		r.dirtySinceCommitStart, r.CommitClean = true, false
		r.Run.Count("put.end: " + res.reply)
		r.record(line, res.reply, r.model(fmt.Sprintf("put.end %d", n(1))))
		if res.reply == "ok" {
			r.Acked[o.obj] = true
			slot, off := r.St.LastPut()
			r.record(line+" place", fmt.Sprintf("ok %d %d", slot, off), place)
			if r.finalBegun {
				r.fail("oracle", "an upload was acknowledged after the final sync began", line)
			}
		}
	case "get", "fm": // get <op> <obj>
		op, obj := n(1), n(2)
		if _, known := r.sizes[obj]; !known {
			return
		}
		r.declare(r.St, obj)
		o := r.startOp(op, obj, w[0])
		m := r.model(fmt.Sprintf("%s %d %d", w[0], op, obj))
		for {
			res, fin, ok := r.advance(o)
			if !ok {
				return
			}
			if fin {
				delete(r.ops, op)
				impl := r.dataReply(obj, res)
				if m == "closed" {
					m = "err unavailable"
				}
				r.record(line, impl, m)
				return
			}
			r.dirtySinceCommitStart, r.CommitClean = true, false
			// a refresh is in progress: mirror its regions
			switch o.park.Kind {
			case "allocated":
				r.Run.Count("refresh")
				if m != "refresh" && r.Model != nil {
					r.record(line, "refresh", m)
					// let the operation run to its end, the case is over
					o.park.Resume(nil)
					return
				}
				o.park.Resume(nil)
			case "copied":
				if r.Model == nil {
					o.park.Resume(nil)
					continue
				}
				cp := r.model(fmt.Sprintf("refresh.copy %d", op))
				if !strings.HasPrefix(cp, "ok ") {
					r.record(line+" copy", "ok", cp)
					return
				}
				o.park.Resume(nil)
				end := r.model(fmt.Sprintf("refresh.end %d", op))
				if end == "ok" {
					if w[0] == "get" {
						m = "data " + strings.TrimPrefix(cp, "ok ")
					} else {
						m = "present"
					}
				} else {
					m = end
				}
			}
		}
	case "g1.start":
		if r.g1pc != "idle" || !r.St.G1Awake() || r.cancelled {
			return
		}
		r.toStarted(true)
	case "shutdown":
		if r.cancelled {
			return
		}
		r.cancelled = true
		r.St.Cancel()
		r.record(line, "ok", "ok")
		if r.g1pc == "idle" {
			r.toStarted(false)
		}
	case "sync.begin":
		if r.g1pc != "started" {
			return
		}
		if r.g1park.Kind == "timer" { // retry after a failed sync
			r.g1park.Resume(nil)
			e, ok := r.expect(r.St.G1Ev, "datasync", "sw-begin")
			if !ok {
				return
			}
			if e.Kind == "sw-begin" {
				// the syncer gave up on the failed data sync and went on to NotifySyncCompleted
				if r.checkOrder() {
					e.tryResume(nil)
					return
				}
				if r.Model != nil {
					r.fail("disagreement", "the syncer does not retry a failed data sync", "next gate: "+e.Kind)
					return
				}
				r.g1pc, r.g1park = "want", nil
				r.swBegun(1, e)
				return
			}
			r.g1park = &e
		}
		r.g1park.Resume(nil)
		e, ok := r.expect(r.St.G1Ev, "insync")
		if !ok {
			return
		}
		r.g1park, r.g1pc = &e, "syncing"
		r.record(line, "ok", r.model(line))
	case "sync.end":
		if r.g1pc != "syncing" {
			return
		}
		r.g1park.Resume(nil)
		e, ok := r.expect(r.St.G1Ev, "synced")
		if !ok {
			return
		}
		r.g1park, r.g1pc = &e, "synced"
		r.record(line, "ok", r.model(line))
	case "sync.fail":
		if r.g1pc != "syncing" {
			return
		}
		r.g1park.Resume(fmt.Errorf("injected sync failure"))
		e, ok := r.expect(r.St.G1Ev, "timer", "sw-begin", "datasync")
		if !ok {
			return
		}
		if e.Kind != "timer" {
			// the syncer carries on although the data sync failed
			if e.Kind == "sw-begin" && r.checkOrder() {
				e.tryResume(nil)
				return
			}
			if r.Model != nil {
				r.fail("disagreement", "the syncer does not retry a failed data sync", "next gate: "+e.Kind)
				return
			}
			if e.Kind == "sw-begin" {
				r.g1pc, r.g1park = "want", nil
				r.swBegun(1, e)
			} else {
				r.g1park, r.g1pc, r.g1final, r.finalBegun = &e, "started", true, true
			}
			return
		}
		r.g1park, r.g1pc = &e, "started"
		r.record(line, "ok", r.model(line))
	case "g1.completed":
		if r.g1pc != "synced" {
			return
		}
		second := r.iterShutdown && !r.g1final
		from := r.St.SrcLogLen()
		r.g1park.Resume(nil)
		arg := 0
		if second {
			arg = 1
		}
		r.record(line, "ok", r.model(fmt.Sprintf("g1.completed %d", arg)))
		if second {
			e, ok := r.expect(r.St.G1Ev, "datasync", "sw-begin")
			if !ok {
				return
			}
			if e.Kind == "sw-begin" {
				// no second sync although a shutdown was requested
				if r.Model != nil {
					r.fail("disagreement", "no final data sync on shutdown", "next gate: "+e.Kind)
					return
				}
				r.g1pc, r.g1park = "want", nil
				r.swBegun(1, e)
				return
			}
			r.g1park, r.g1pc, r.g1final, r.finalBegun = &e, "started", true, true
			return
		}
		r.g1pc, r.g1park = "want", nil
		if r.swOwner == 2 {
			if !r.St.AwaitSrc(from, "completed") {
				r.fail("disagreement", "harness: the store did not reach the expected gate", "want NotifySyncCompleted after the data sync returned")
				return
			}
			r.g1queued = true
			return
		}
		e, ok := r.expect(r.St.G1Ev, "sw-begin")
		if !ok {
			return
		}
		r.swBegun(1, e)
	case "sw.begin":
		owner := n(1)
		if r.swOwner != 0 || r.g1queued {
			return
		}
		if owner == 1 {
			if r.g1pc != "want" || r.g1park == nil || r.g1park.Kind != "timer" {
				return
			}
			r.g1park.Resume(nil)
			r.g1park = nil
			e, ok := r.expect(r.St.G1Ev, "sw-begin")
			if !ok {
				return
			}
			r.swBegun(1, e)
			return
		}
		if r.g1pc == "want" {
			return
		}
		if r.g2retry != nil {
			r.g2retry.Resume(nil)
			r.g2retry = nil
		} else if r.St.G2Wanted() {
			r.St.OpenRelGate()
		} else {
			return
		}
		e, ok := r.expect(r.St.G2Ev, "sw-begin")
		if !ok {
			return
		}
		r.swBegun(2, e)
	case "g2.wake":
		// the release wake-up reaches ProcessBlockRelease while ProcessBlockPut holds storeLock: it
		// waits for the lock (code that takes GetPersistentState before the lock does so now); its
		// state write begins when the lock is handed over (queuedRelease)
		if r.swOwner != 1 || r.g2queued || r.g2retry != nil || !r.St.G2Wanted() {
			return
		}
		from := r.St.SrcLogLen()
		r.St.OpenRelGate()
		r.g2queued = true
		r.St.AwaitSrcFor(from, "getstate", 2*time.Millisecond)
		r.record(line, "ok", "ok")
	case "sw.step", "sw.fail":
		if r.swOwner == 0 || r.swStage >= 6 {
			return
		}
		ch := r.St.G1Ev
		if r.swOwner == 2 {
			ch = r.St.G2Ev
		}
		if w[0] == "sw.fail" {
			r.swPark.Resume(fmt.Errorf("injected directory failure"))
			e, ok := r.expect(ch, "timer")
			if !ok {
				return
			}
			if r.swOwner == 1 {
				r.g1park = &e
			} else {
				r.g2retry = &e
			}
			r.swOwner, r.swPark = 0, nil
			r.record(line, "ok", r.model(line))
			r.queuedRelease()
			if r.g1queued { // storeLock is free now: the queued ProcessBlockPut takes it
				r.g1queued = false
				if b, ok := r.expect(r.St.G1Ev, "sw-begin"); ok {
					r.swBegun(1, b)
				}
			}
			return
		}
		r.swPark.Resume(nil)
		e, ok := r.dirGate(ch, dirOps[r.swStage+1])
		if !ok {
			return
		}
		switch {
		case r.Model != nil:
			r.swStage++
		case e.Kind == "sw-end":
			r.swStage = 6
		case r.swStage < 5: // oracle-only: the writer ends when it says so, whatever it did before
			r.swStage++
		}
		r.swPark = &e
		r.record(line, "ok", r.model(line))
	case "sw.done":
		r.swDone(line)
	default:
		r.fail("disagreement", "harness: unknown script line", line)
	}
}

func (r *Runner) swDone(line string) {
	if r.swOwner == 0 || r.swStage != 6 {
		return
	}
	owner := r.swOwner
	r.swPark.Resume(nil)
	r.swOwner, r.swPark = 0, nil
	if owner == 2 {
		e, ok := r.expect(r.St.G2Ev, "returned")
		if !ok {
			return
		}
		r.record(line, "ok", r.model(line))
		k := r.St.RelWakeupFetches()
		e.Resume(nil)
		r.St.AwaitRelWakeupFetch(k + 1)
		if r.g1queued {
			r.g1queued = false
			if b, ok := r.expect(r.St.G1Ev, "sw-begin"); ok {
				r.swBegun(1, b)
			}
		}
		return
	}
	e, ok := r.expect(r.St.G1Ev, "returned")
	if !ok {
		return
	}
	r.record(line, "ok", r.model(line))
	r.queuedRelease()
	r.commitInProgress = false
	r.CommitClean = !r.dirtySinceCommitStart
	if !e.Ret {
		r.g1pc = "finished"
		e.Resume(nil)
		return
	}
	r.g1pc = "idle"
	k := r.St.PutWakeupFetches()
	e.Resume(nil)
	r.St.AwaitPutWakeupFetch(k + 1)
	if r.cancelled {
		r.toStarted(false)
	}
}
