package psx

import (
	"context"
	"fmt"
	"sort"
	"strconv"
	"strings"

	"github.com/buildbarn/bb-storage/pkg/blobstore/local"

	"verifharness/hx"
)

// Choice is one admissible post-crash medium.
type Choice struct {
	Data, Idx []bool
	Pick      int
	Leftover  bool
	Power     bool // false: process crash, the operating system keeps every write
}

func bits(b []bool) string {
	if len(b) == 0 {
		return "-"
	}
	var s strings.Builder
	for _, x := range b {
		if x {
			s.WriteByte('1')
		} else {
			s.WriteByte('0')
		}
	}
	return s.String()
}

func parseBits(s string) []bool {
	if s == "-" {
		return nil
	}
	b := make([]bool, len(s))
	for i, c := range s {
		b[i] = c == '1'
	}
	return b
}

func b2i(b bool) int {
	if b {
		return 1
	}
	return 0
}

func (c Choice) args() string {
	return fmt.Sprintf("%s %s %d %d %d", bits(c.Data), bits(c.Idx), c.Pick, b2i(c.Leftover), b2i(c.Power))
}

func (c Choice) modelLine() string {
	return fmt.Sprintf("crash %s %s %d %d", bits(c.Data), bits(c.Idx), c.Pick, b2i(c.Leftover))
}

func ParseChoice(w []string) Choice {
	n := func(i int) int { v, _ := strconv.Atoi(w[i]); return v }
	return Choice{Data: parseBits(w[0]), Idx: parseBits(w[1]), Pick: n(2), Leftover: n(3) != 0, Power: n(4) != 0}
}

// AllKept keeps every pending write and the newest state file.
func AllKept(sn Snapshot, power bool) Choice {
	c := Choice{Data: make([]bool, len(sn.DataPend)), Idx: make([]bool, len(sn.IndexPend)), Pick: len(sn.Dir.Renamed), Power: power}
	for i := range c.Data {
		c.Data[i] = true
	}
	for i := range c.Idx {
		c.Idx[i] = true
	}
	return c
}

// restoredLine renders what a freshly assembled store reports, like the model's reply to `crash`.
func restoredLine(s *Store) string {
	s.Lock.RLock()
	defer s.Lock.RUnlock()
	_, blocks := s.BL.GetPersistentState()
	epochs := 0
	for _, b := range blocks {
		epochs += len(b.EpochHashSeeds)
	}
	old := 0
	for i := 0; i < s.InitialBlocks; i++ {
		if _, needsRefresh := s.LBM.Get(local.Location{BlockIndex: i}); needsRefresh {
			old++
		}
	}
	return fmt.Sprintf("restored %d oldest %d epochs %d old %d", s.InitialBlocks, s.OldestEpoch, epochs, old)
}

func (r *Runner) objects() []int {
	var o []int
	for k := range r.Tried {
		o = append(o, k)
	}
	sort.Ints(o)
	return o
}

// probe runs FindMissing or Get for one object on an ungated store and mirrors it on the model.
func (r *Runner) probe(st *Store, kind string, op, obj int) (impl, mdl string) {
	r.declare(st, obj)
	d := r.Digest(obj)
	if kind == "fm" {
		missing, err := st.BA.FindMissing(context.Background(), d.ToSingletonSet())
		switch {
		case err != nil:
			impl = Code(err)
		case missing.Length() > 0:
			impl = "missing"
		default:
			impl = "present"
		}
	} else {
		data, err := st.BA.Get(context.Background(), d).ToByteSlice(1 << 20)
		if err != nil {
			impl = Code(err)
		} else {
			impl = r.dataReply(obj, opResult{reply: "data", data: data})
		}
	}
	if r.Model == nil {
		return impl, impl
	}
	mdl = r.model(fmt.Sprintf("%s %d %d", kind, op, obj))
	switch mdl {
	case "closed":
		mdl = "err unavailable"
	case "refresh":
		cp := r.model(fmt.Sprintf("refresh.copy %d", op))
		if !strings.HasPrefix(cp, "ok ") {
			return impl, "refresh.copy: " + cp
		}
		end := r.model(fmt.Sprintf("refresh.end %d", op))
		switch {
		case end != "ok":
			mdl = end
		case kind == "get":
			mdl = "data " + strings.TrimPrefix(cp, "ok ")
		default:
			mdl = "present"
		}
	}
	return impl, mdl
}

// peek looks an object up and reads the location it is recorded at, without refreshing it: exactly
// "lookup + read" of the property statement, and free of side effects.
func (r *Runner) peek(st *Store, obj int) (impl, mdl string) {
	r.declare(st, obj)
	d := r.Digest(obj)
	st.Lock.RLock()
	loc, err := st.KLM.Get(r.key(obj))
	if err != nil {
		st.Lock.RUnlock()
		impl = Code(err)
	} else {
		getter, _ := st.LBM.Get(loc)
		b := getter(d)
		st.Lock.RUnlock()
		data, err := b.ToByteSlice(1 << 20)
		if err != nil {
			impl = Code(err)
		} else {
			impl = r.dataReply(obj, opResult{reply: "data", data: data})
		}
	}
	if r.Model == nil {
		return impl, impl
	}
	return impl, r.model(fmt.Sprintf("peek %d", obj))
}

// What sentences of the oracle (stable: matched against known_findings.json).
const (
	WhatWrongBytes  = "an object is served with wrong bytes after a crash and restart"
	WhatIntegrity   = "a read fails with a data integrity error after a crash and restart although only unsynced writes were lost"
	WhatPresentLost = "an object reported present after a crash and restart cannot be read"
	WhatAckLost     = "an object that was readable before a graceful shutdown or after a completed commit is gone after restart"
)

// Fork materialises the medium of a crash now (non-destructively), rebuilds a store from it with the
// real constructors, reads back every object ever offered and compares with the model's post-crash
// store. With must, every object the running store can look up right now has to be readable
// afterwards (C03).
func (r *Runner) Fork(sn Snapshot, c Choice, must bool) {
	if r.Failed {
		return
	}
	line := "fork " + c.args() + " any"
	var mustHave []int
	if must {
		line = "fork " + c.args() + " must"
		mustHave = r.Resolvable()
	}
	media := sn.Crash(c.Data, c.Idx, c.Pick, c.Leftover, c.Power)
	newFork := func() *Store {
		fs, err := NewStore(r.Cfg, media, false)
		if err != nil {
			r.fail("oracle", "the store cannot be assembled from a post-crash medium", err.Error())
			return nil
		}
		fs.dead.Store(true)
		return fs
	}
	nScript, nImpl := len(r.Script), len(r.Impl)
	r.Script = append(r.Script, line)
	fs := newFork()
	if fs == nil {
		return
	}
	r.model("save")
	// the model's slot table is part of what "restore" rewinds: rewind the record of what was declared with it
	declaredAtSave := map[string]bool{}
	for k := range r.declared {
		declaredAtSave[k] = true
	}
	rewind := func() {
		r.model("restore")
		r.declared = map[string]bool{}
		for k := range declaredAtSave {
			r.declared[k] = true
		}
	}
	if r.Model != nil {
		r.record(line, restoredLine(fs), r.model(c.modelLine()))
	}
	r.Run.Count("fork")
	objs := r.objects()
	// own reads an object from a store (and model state) of its own: the probes of other objects have
	// side effects (a refresh allocates space and writes index records, which may use up the spare
	// blocks or displace other records)
	own := func(i, o int, why string) string {
		f2 := newFork()
		if f2 == nil {
			return "err"
		}
		rewind()
		r.model(c.modelLine())
		impl, mdl := r.probe(f2, "get", 920000+i, o)
		r.record(fmt.Sprintf("fork get %d (own store, %s)", o, why), impl, mdl)
		return impl
	}
	check := func(o int, impl string, present bool) {
		r.Run.Count("fork get: " + bucket(impl))
		switch {
		case r.Failed:
		case impl == "data ?":
			r.fail("oracle", WhatWrongBytes, fmt.Sprintf("Get(object %d) returned other bytes than were uploaded", o))
		case impl == "err integrity":
			r.fail("oracle", WhatIntegrity, fmt.Sprintf("Get(object %d) = %s", o, impl))
		case present && !strings.HasPrefix(impl, "data") && impl != "err unavailable":
			r.fail("oracle", WhatPresentLost, fmt.Sprintf("FindMissing said present, Get(object %d) = %s", o, impl))
		}
	}
	// first the side-effect free reads
	peeked := map[int]string{}
	for _, o := range objs {
		if r.Failed {
			break
		}
		impl, mdl := r.peek(fs, o)
		r.record(fmt.Sprintf("fork peek %d", o), impl, mdl)
		peeked[o] = impl
		r.Run.Count("fork peek: " + bucket(impl))
		check(o, impl, false)
	}
	for _, o := range mustHave {
		if !strings.HasPrefix(peeked[o], "data") && !r.Failed {
			r.fail("oracle", WhatAckLost, fmt.Sprintf("object %d: %s", o, peeked[o]))
		}
	}
	// then the blob access API (Get and FindMissing refresh objects in old blocks)
	var again []int
	for i, o := range objs {
		if r.Failed {
			break
		}
		fm, mdl := r.probe(fs, "fm", 900000+i, o)
		r.record(fmt.Sprintf("fork fm %d", o), fm, mdl)
		if fm == "err integrity" && !r.Failed {
			r.fail("oracle", WhatIntegrity, fmt.Sprintf("FindMissing(object %d) = %s", o, fm))
		}
		impl, mdl := r.probe(fs, "get", 910000+i, o)
		r.record(fmt.Sprintf("fork get %d", o), impl, mdl)
		check(o, impl, fm == "present")
		if impl == "err unavailable" {
			again = append(again, i)
		}
	}
	for _, i := range again {
		if !r.Failed {
			check(objs[i], own(i, objs[i], "no spare block left"), false)
		}
	}
	rewind()
	if !r.Failed {
		r.Script, r.Impl, r.Mdl = r.Script[:nScript], r.Impl[:nImpl], r.Mdl[:nImpl]
	}
}

func bucket(reply string) string {
	if strings.HasPrefix(reply, "data ") && reply != "data ?" {
		return "data"
	}
	return reply
}

func intList(v []int) string {
	var b strings.Builder
	for _, x := range v {
		fmt.Fprintf(&b, " %d", x)
	}
	return b.String()
}

// Resolvable lists the objects the running store can currently look up (no refresh, no side effect).
func (r *Runner) Resolvable() []int {
	var res []int
	for _, o := range r.objects() {
		k := r.key(o)
		r.St.Lock.RLock()
		_, err := r.St.KLM.Get(k)
		r.St.Lock.RUnlock()
		if err == nil {
			res = append(res, o)
		}
	}
	return res
}

// CrashRestart kills the running store and continues on a store assembled from the chosen medium.
func (r *Runner) CrashRestart(c Choice) {
	if r.Failed {
		return
	}
	line := "crash " + c.args()
	sn := r.St.Snapshot()
	r.St.Kill()
	media := sn.Crash(c.Data, c.Idx, c.Pick, c.Leftover, c.Power)
	ns, err := NewStore(r.Cfg, media, true)
	r.Script = append(r.Script, line)
	if err != nil {
		r.fail("oracle", "the store cannot be assembled from a post-crash medium", err.Error())
		return
	}
	r.St = ns
	r.ops = map[int]*opState{}
	r.g1pc, r.g1final, r.g1park, r.iterShutdown, r.cancelled, r.finalBegun = "idle", false, nil, false, false, false
	r.swOwner, r.swStage, r.swPark, r.g2retry, r.g1queued, r.g2queued = 0, 0, nil, nil, false, false
	r.commitInProgress, r.dirtySinceCommitStart, r.CommitClean = false, false, false
	if r.Model != nil {
		r.record(line, restoredLine(ns), r.model(c.modelLine()))
	}
	ns.AwaitPutWakeupFetch(1)
	ns.AwaitRelWakeupFetch(1)
	r.Run.Count("crash-restart")
}

// RandomChoice draws a post-crash medium.
func RandomChoice(rnd *hx.Rand, sn Snapshot) Choice {
	c := Choice{Data: make([]bool, len(sn.DataPend)), Idx: make([]bool, len(sn.IndexPend)), Power: true}
	pd, pi := rnd.PickInt(1, 2, 3), rnd.PickInt(1, 2, 3)
	for i := range c.Data {
		c.Data[i] = rnd.Chance(pd, 4)
	}
	for i := range c.Idx {
		c.Idx[i] = rnd.Chance(pi, 4)
	}
	c.Pick = rnd.Intn(len(sn.Dir.Renamed) + 1)
	c.Leftover = rnd.Chance(1, 2)
	return c
}
