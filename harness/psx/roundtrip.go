package psx

import (
	"fmt"
	"strconv"
	"strings"

	"github.com/buildbarn/bb-storage/pkg/blobstore/local"
	pb "github.com/buildbarn/bb-storage/pkg/proto/blobstore/local"
	"google.golang.org/protobuf/proto"

	"verifharness/hx"
)

// WhatStateRoundTrip: the model's `readState` returns exactly the last durable state file, whatever
// its size; the real DirectoryBackedPersistentStateStore has to do the same.
const WhatStateRoundTrip = "the persistent state read back after a restart is not the state that was written"

// roundTripState builds a PersistentState with the given number of blocks and epoch hash seeds per
// block; its content is a function of the parameters only.
func roundTripState(blocks, seedsPerBlock int, salt uint64) *pb.PersistentState {
	z := salt
	next := func() uint64 {
		z += 0x9e3779b97f4a7c15
		x := z
		x = (x ^ (x >> 30)) * 0xbf58476d1ce4e5b9
		x = (x ^ (x >> 27)) * 0x94d049bb133111eb
		return x ^ (x >> 31)
	}
	st := &pb.PersistentState{OldestEpochId: uint32(next()%1000) + 1, KeyLocationMapHashInitialization: next() | 1}
	for i := 0; i < blocks; i++ {
		b := &pb.BlockState{
			BlockLocation:    &pb.BlockLocation{OffsetBytes: int64(i) * 1 << 20, SizeBytes: 1 << 20},
			WriteOffsetBytes: int64(next() % (1 << 20)),
		}
		for j := 0; j < seedsPerBlock; j++ {
			b.EpochHashSeeds = append(b.EpochHashSeeds, next())
		}
		st.Blocks = append(st.Blocks, b)
	}
	return st
}

// StateRoundTrip writes a state with the real DirectoryBackedPersistentStateStore into a simulated
// directory (over an older, smaller state file), takes the medium through a process exit and
// through a power loss, and reads it back with a store constructed anew: the state read has to be
// the state written. The line returned replays the case.
func StateRoundTrip(run *hx.Run, name string, blocks, seedsPerBlock int, salt uint64) (line string, ok bool) {
	line = fmt.Sprintf("#roundtrip %d %d %d", blocks, seedsPerBlock, salt)
	want := roundTripState(blocks, seedsPerBlock, salt)
	old, _ := proto.Marshal(roundTripState(1, 1, salt+1))
	dir := NewSimDir(DirMedium{Tmp: "absent", State: old})
	report := func(detail string) {
		run.Report(hx.Finding{Kind: "oracle", What: WhatStateRoundTrip, Detail: detail, Case: name, Script: []string{line}})
	}
	if err := local.NewDirectoryBackedPersistentStateStore(dir).WritePersistentState(want); err != nil {
		report("WritePersistentState: " + err.Error())
		return line, false
	}
	size := proto.Size(want)
	run.Count(fmt.Sprintf("state round trip: %s bytes", sizeBucket(size)))
	for _, power := range []bool{false, true} {
		after := dir.Snapshot().Crash(0, false, power) // the write completed: candidate 0 is the new file
		got, err := local.NewDirectoryBackedPersistentStateStore(NewSimDir(after)).ReadPersistentState()
		run.Compared(1)
		if err != nil {
			report(fmt.Sprintf("state of %d bytes (%d blocks, %d seeds each), power loss %v: ReadPersistentState: %v", size, blocks, seedsPerBlock, power, err))
			return line, false
		}
		if !proto.Equal(got, want) {
			report(fmt.Sprintf("state of %d bytes (%d blocks, %d seeds each), power loss %v: read back %d blocks, oldest epoch %d, hash initialisation %d; written %d blocks, oldest epoch %d, hash initialisation %d",
				size, blocks, seedsPerBlock, power, len(got.Blocks), got.OldestEpochId, got.KeyLocationMapHashInitialization,
				len(want.Blocks), want.OldestEpochId, want.KeyLocationMapHashInitialization))
			return line, false
		}
	}
	return line, true
}

func sizeBucket(n int) string {
	switch {
	case n < 1024:
		return "<1Ki"
	case n < 4096:
		return "1Ki..4Ki"
	case n < 8192:
		return "4Ki..8Ki"
	case n < 65536:
		return "8Ki..64Ki"
	default:
		return ">=64Ki"
	}
}

// RandomRoundTrip draws the shape of a state: few blocks with many epochs (a long history without
// rotation), many blocks, sizes just below and above 4 KiB and 64 KiB.
func RandomRoundTrip(run *hx.Run, name string, rnd *hx.Rand) (string, bool) {
	blocks := rnd.PickInt(1, 2, 3, 5, 9, 40, 400, rnd.Range(1, 2000))
	target := rnd.PickInt(200, 4000, 4090, 4100, 4200, 8192, 20000, 65000, 66000, 300000)
	seeds := target / (10 * blocks) // a seed takes 9..10 bytes
	if rnd.Chance(1, 5) {
		seeds = rnd.Range(0, 3)
	}
	return StateRoundTrip(run, name, blocks, seeds, rnd.Uint64())
}

// ReplayRoundTrip replays a "#roundtrip" line (false: not such a line).
func ReplayRoundTrip(run *hx.Run, name string, script []string) bool {
	if len(script) == 0 || !strings.HasPrefix(script[0], "#roundtrip ") {
		return false
	}
	w := strings.Fields(script[0])
	if len(w) != 4 {
		return true
	}
	b, _ := strconv.Atoi(w[1])
	s, _ := strconv.Atoi(w[2])
	salt, _ := strconv.ParseUint(w[3], 10, 64)
	StateRoundTrip(run, name, b, s, salt)
	return true
}
