package psx

import (
	"fmt"
	"strconv"
	"strings"

	"verifharness/hx"
)

// RandomConfig draws a tiny geometry: every upload is near a sector or block boundary, the index is
// small enough for collisions and displacement.
func RandomConfig(rnd *hx.Rand) Config {
	c := Config{Policy: "imm", Old: rnd.Range(1, 2), Cur: rnd.Range(1, 2), New: rnd.Range(1, 2),
		Sector: rnd.PickInt(4, 8, 16), SectorsPerBl: rnd.Range(2, 5), Spare: rnd.Range(1, 3),
		Records: rnd.PickInt(5, 7, 11, 13), MaxGet: rnd.Range(2, 4), MaxPut: rnd.Range(2, 6)}
	if rnd.Chance(1, 4) {
		c.Policy, c.New = "mut", 1
	}
	return c
}

func (c Config) randomSize(rnd *hx.Rand) int {
	bs := c.BlockSize()
	s := rnd.PickInt(1, c.Sector-1, c.Sector, c.Sector+1, 2*c.Sector+1, bs, bs-1, rnd.Range(1, bs), rnd.Range(1, 2*c.Sector), rnd.Range(1, c.Sector))
	if s < 1 {
		s = 1
	}
	if s > bs {
		s = bs
	}
	return s
}

// Opts selects what a generated case exercises.
type Opts struct {
	Steps       int
	Forks       int  // random post-crash media evaluated after every step (plus all-lost and all-kept)
	Exhaustive  int  // evaluate every subset when at most this many writes are pending (0 = never)
	Crashes     bool // the main run itself crashes and restarts now and then
	Shutdown    bool // request a graceful shutdown somewhere and run it to completion (C03)
	CommitForks bool // after every clean commit: process crash, everything resolvable must survive (C03)
	Faults      bool // inject failing data syncs and directory operations
}

// Gen produces the next action of a workload from the runner's state.
type Gen struct {
	rnd     *hx.Rand
	o       Opts
	nextObj int
	nextOp  int
	open    []int // split uploads in flight: op numbers
	burst   int   // syncer steps to take in a row
	openSt  map[int]string
	// an upload was placed inside the first data sync of a shutdown
	windowPut bool
	// failures injected into the final data sync so far
	finalFails int
}

func NewGen(rnd *hx.Rand, o Opts) *Gen { return &Gen{rnd: rnd, o: o, openSt: map[int]string{}} }

// finalFault decides whether the data sync in progress - the final one of a shutdown - fails now.
func (g *Gen) finalFault(r *Runner) bool {
	if !g.o.Faults || !r.g1final || r.g1pc != "syncing" || g.finalFails >= 3 || !g.rnd.Chance(1, 2) {
		return false
	}
	g.finalFails++
	return true
}

func (g *Gen) newPut(r *Runner) (op, obj, size int) {
	g.nextOp++
	obj = g.nextObj
	// now and then upload an object again (same content, same key)
	if g.nextObj > 0 && g.rnd.Chance(1, 6) {
		obj = g.rnd.Intn(g.nextObj)
		return g.nextOp, obj, r.sizes[obj]
	}
	g.nextObj++
	return g.nextOp, obj, r.Cfg.randomSize(g.rnd)
}

// Next returns the lines of the next action ("" = nothing to do).
func (g *Gen) Next(r *Runner) []string {
	rnd := g.rnd
	// syncer steps available now
	var sync []string
	for _, e := range r.Enabled() {
		if e == "shutdown" {
			continue
		}
		if e == "sync.fail" && g.finalFault(r) {
			// the final data sync of a shutdown fails (once or several times in a row)
			return []string{"sync.fail"}
		}
		if (e == "sync.fail" || e == "sw.fail") && !(g.o.Faults && rnd.Chance(1, 6)) {
			continue
		}
		sync = append(sync, e)
	}
	// the window in which a shutting-down store still accepts uploads: the first data sync after
	// the shutdown request is running (NotifySyncStarting(false) done, NotifySyncStarting(true) not yet)
	if r.cancelled && r.g1pc == "syncing" && !r.g1final && !g.windowPut && rnd.Chance(1, 2) {
		g.windowPut = true
		op, obj, size := g.newPut(r)
		return []string{fmt.Sprintf("put.begin %d %d %d", op, obj, size), fmt.Sprintf("put.copy %d", op), fmt.Sprintf("put.end %d", op)}
	}
	if g.burst > 0 && len(sync) > 0 {
		g.burst--
		return []string{sync[rnd.Intn(len(sync))]}
	}
	for tries := 0; tries < 20; tries++ {
		switch k := rnd.Intn(100); {
		case k < 22: // atomic upload
			op, obj, size := g.newPut(r)
			return []string{fmt.Sprintf("put.begin %d %d %d", op, obj, size), fmt.Sprintf("put.copy %d", op), fmt.Sprintf("put.end %d", op)}
		case k < 30 && len(g.open) < 2: // start a split upload
			op, obj, size := g.newPut(r)
			g.open = append(g.open, op)
			g.openSt[op] = "begun"
			return []string{fmt.Sprintf("put.begin %d %d %d", op, obj, size)}
		case k < 45 && len(g.open) > 0: // advance a split upload
			i := rnd.Intn(len(g.open))
			op := g.open[i]
			if r.ops[op] == nil { // failed at begin, or lost in a crash
				g.open = append(g.open[:i], g.open[i+1:]...)
				continue
			}
			if g.openSt[op] == "begun" {
				g.openSt[op] = "copied"
				return []string{fmt.Sprintf("put.copy %d", op)}
			}
			g.open = append(g.open[:i], g.open[i+1:]...)
			return []string{fmt.Sprintf("put.end %d", op)}
		case k < 55 && g.nextObj > 0:
			g.nextOp++
			return []string{fmt.Sprintf("get %d %d", g.nextOp, rnd.Intn(g.nextObj))}
		case k < 60 && g.nextObj > 0:
			g.nextOp++
			return []string{fmt.Sprintf("fm %d %d", g.nextOp, rnd.Intn(g.nextObj))}
		case k < 97 && len(sync) > 0:
			g.burst = rnd.PickInt(0, 0, 1, 3, 6, 12)
			return []string{sync[rnd.Intn(len(sync))]}
		}
	}
	if len(sync) > 0 {
		return []string{sync[0]}
	}
	return nil
}

// forks evaluates post-crash media of the present moment.
func (g *Gen) forks(r *Runner, caseRnd *hx.Rand) {
	sn := r.CheckPend()
	if r.Failed || (g.o.Forks == 0 && g.o.Exhaustive == 0) {
		return
	}
	nPend := len(sn.DataPend) + len(sn.IndexPend)
	cands := len(sn.Dir.Renamed) + 1
	if g.o.Exhaustive > 0 && nPend <= g.o.Exhaustive && nPend > 0 {
		r.Run.Count("exhaustive-point")
		for mask := 0; mask < 1<<nPend && !r.Failed; mask++ {
			c := Choice{Data: make([]bool, len(sn.DataPend)), Idx: make([]bool, len(sn.IndexPend)), Power: true,
				Pick: (mask + caseRnd.Intn(cands)) % cands, Leftover: mask%2 == 1}
			for i := range c.Data {
				c.Data[i] = mask>>i&1 == 1
			}
			for i := range c.Idx {
				c.Idx[i] = mask>>(len(c.Data)+i)&1 == 1
			}
			r.Fork(sn, c, false)
		}
		return
	}
	lost := Choice{Data: make([]bool, len(sn.DataPend)), Idx: make([]bool, len(sn.IndexPend)), Power: true, Pick: caseRnd.Intn(cands)}
	r.Fork(sn, lost, false)
	kept := AllKept(sn, true)
	kept.Pick = caseRnd.Intn(cands)
	r.Fork(sn, kept, false)
	for i := 0; i < g.o.Forks; i++ {
		r.Fork(sn, RandomChoice(caseRnd, sn), false)
	}
}

// RunCase generates and executes one workload.
func RunCase(run *hx.Run, model *hx.Model, name string, rnd *hx.Rand, o Opts) *Runner {
	cfg := RandomConfig(rnd)
	hashInit := rnd.Uint64() | 1
	if rnd.Chance(1, 4) {
		hashInit = 0 // start without a state file: the store draws its own hash initialisation
	}
	r, err := NewRunner(run, model, name, cfg, hashInit)
	if err != nil {
		run.Report(hx.Finding{Kind: "oracle", What: "the store cannot be assembled from a fresh medium", Detail: err.Error(), Case: name})
		return nil
	}
	r.Hold = true // the caller shrinks first (ReportHeld)
	g := NewGen(rnd, o)
	shutdownAt := -1
	if o.Shutdown {
		shutdownAt = rnd.Intn(o.Steps)
	}
	for i := 0; i < o.Steps && !r.Failed && !r.drained; i++ {
		if i == shutdownAt {
			r.Step("shutdown")
			g.forks(r, rnd)
		}
		lines := g.Next(r)
		if lines == nil {
			continue
		}
		for _, l := range lines {
			r.Step(l)
			g.forks(r, rnd)
			if r.Failed {
				break
			}
		}
		if o.CommitForks && r.CommitClean && r.G1PC() == "idle" && !r.Failed {
			sn := r.St.Snapshot()
			r.Run.Count("commit-fork")
			r.Fork(sn, AllKept(sn, false), true)
		}
		if o.Crashes && rnd.Chance(1, 40) && !r.Failed {
			sn := r.St.Snapshot()
			c := RandomChoice(rnd, sn)
			if rnd.Chance(1, 4) {
				c = AllKept(sn, false)
			}
			r.CrashRestart(c)
			g.open, g.openSt = nil, map[int]string{}
			g.forks(r, rnd)
		}
	}
	if o.Shutdown && !r.Failed && !r.drained {
		r.FinishShutdown(func() { g.forks(r, rnd) }, func() []string {
			if g.windowPut || !rnd.Chance(1, 2) {
				return nil
			}
			g.windowPut = true
			op, obj, size := g.newPut(r)
			return []string{fmt.Sprintf("put.begin %d %d %d", op, obj, size), fmt.Sprintf("put.copy %d", op), fmt.Sprintf("put.end %d", op)}
		}, func() bool { return g.finalFault(r) })
	}
	r.St.Kill()
	return r
}

// FinishShutdown drives the syncer until ProcessBlockPut has returned false, then restarts from the
// medium as the operating system holds it: everything resolvable at the end must be readable.
func (r *Runner) FinishShutdown(after func(), window func() []string, fault func() bool) {
	if !r.cancelled && !r.Failed && !r.drained { // a crash and restart came after the request
		r.Step("shutdown")
		after()
	}
	for i := 0; i < 200 && r.g1pc != "finished" && !r.Failed && !r.drained; i++ {
		var next string
		for _, e := range r.Enabled() {
			if e == "sync.fail" || e == "sw.fail" || e == "shutdown" {
				continue
			}
			next = e
			break
		}
		if next == "" {
			r.fail("oracle", "graceful shutdown does not complete", fmt.Sprintf("g1 %s", r.g1pc))
			return
		}
		if next == "sync.end" && !r.g1final && window != nil {
			// the store still accepts uploads during the first data sync of the shutdown
			for _, l := range window() {
				r.Step(l)
				after()
			}
		}
		if next == "sync.end" && fault != nil && fault() {
			next = "sync.fail"
		}
		r.Step(next)
		after()
	}
	if r.Failed || r.drained {
		return
	}
	if r.g1pc != "finished" {
		r.fail("oracle", "graceful shutdown does not complete", fmt.Sprintf("g1 %s after 200 steps", r.g1pc))
		return
	}
	// uploads after the shutdown completed are refused
	r.Step("put.begin 99990 255 1") // object ids stay below 256: contents of one byte are distinct
	r.afterShutdown()
}

// Replay executes a recorded script.
func Replay(run *hx.Run, model *hx.Model, name string, script []string) *Runner {
	w := strings.Fields(script[0])
	cfg, ok := ParseConfig(strings.Join(w[:11], " "))
	if !ok || len(w) != 12 {
		run.Report(hx.Finding{Kind: "disagreement", What: "harness: bad replay script", Case: name, Script: script})
		return nil
	}
	hashInit, _ := strconv.ParseUint(w[11], 10, 64)
	r, err := NewRunner(run, model, name, cfg, hashInit)
	if err != nil {
		return nil
	}
	for _, l := range script[1:] {
		f := strings.Fields(l)
		switch f[0] {
		case "crash":
			r.CrashRestart(ParseChoice(f[1:]))
		case "fork":
			r.Fork(r.St.Snapshot(), ParseChoice(f[1:6]), len(f) > 6 && f[6] == "must" && (r.g1pc == "finished" || r.CommitClean && r.g1pc == "idle"))
		default:
			r.Step(l)
		}
		r.CheckPend()
	}
	r.St.Kill()
	return r
}
