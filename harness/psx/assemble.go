package psx

import (
	"context"
	"time"

	"github.com/buildbarn/bb-storage/pkg/blobstore"
	"github.com/buildbarn/bb-storage/pkg/blobstore/local"
	"github.com/buildbarn/bb-storage/pkg/digest"
)

// NewStore assembles a store over the given media the way new_blob_access.go
// does for a restart. With syncer == false no PeriodicSyncer goroutines are
// started (enough for reading a post-crash medium back).
func NewStore(cfg Config, m Media, syncer bool) (*Store, error) {
	s := &Store{Cfg: cfg, Log: &errLog{}, G1Ev: make(chan Event), G2Ev: make(chan Event), OpEv: make(chan Event)}
	s.Data = NewCrashDevice(m.Data, cfg.Sector)
	s.Index = NewCrashDevice(m.Index, 0)
	s.Dir = NewSimDir(m.Dir.Clone())
	s.Dir.Gate = func(op string) error { return s.park(who(), Event{Kind: "dir:" + op}) }
	s.Data.InSync = func() error { return s.park(who(), Event{Kind: "insync"}) }

	realStore := local.NewDirectoryBackedPersistentStateStore(s.Dir)
	st, err := realStore.ReadPersistentState()
	if err != nil {
		return nil, err
	}
	if m.Dir.State == nil && FreshInit != nil {
		// no state file: ReadPersistentState drew the hash initialisation from the crypto generator;
		// substitute a reproducible draw so that recorded scripts replay
		st.KeyLocationMapHashInitialization = FreshInit()
	}
	s.HashInit = st.KeyLocationMapHashInitialization
	s.OldestEpoch = st.OldestEpochId
	s.FreshState = m.Dir.State == nil

	blockCount := cfg.Slots()
	base := local.NewBlockDeviceBackedBlockAllocator(s.Data, blobstore.CASReadBufferFactory, cfg.Sector, int64(cfg.SectorsPerBl), blockCount, "verif_psx")
	alloc := gatedAllocator{s: s, base: base}
	s.BL, s.InitialBlocks = local.NewPersistentBlockList(alloc, st.OldestEpochId, st.Blocks)

	dataSyncer := func() error {
		if err := s.park(who(), Event{Kind: "datasync"}); err != nil {
			return err
		}
		if err := s.Data.Sync(); err != nil {
			s.SyncSucceeded(false)
			return err
		}
		s.SyncSucceeded(true)
		// Sync() has returned; NotifySyncCompleted has not run yet
		s.park(who(), Event{Kind: "synced"})
		return nil
	}
	s.PS = local.NewPeriodicSyncer(source{s}, &s.Lock, stateStore{s: s, real: realStore}, fakeClock{s}, s.Log,
		10*time.Second, time.Second, s.HashInit, dataSyncer)

	var policy local.BlockListGrowthPolicy
	if cfg.Policy == "mut" {
		policy = local.NewMutableBlockListGrowthPolicy(cfg.Cur)
	} else {
		policy = local.NewImmutableBlockListGrowthPolicy(cfg.Cur, cfg.New)
	}
	s.LBM = local.NewOldCurrentNewLocationBlobMap(s.BL, policy, s.Log, "verif_psx", int64(cfg.BlockSize()), cfg.Old, cfg.New, s.InitialBlocks)
	arr := local.NewBlockDeviceBackedLocationRecordArray(s.Index, s.LBM)
	s.KLM = local.NewHashingKeyLocationMap(arr, cfg.Records, s.HashInit, uint32(cfg.MaxGet), cfg.MaxPut, "verif_psx")
	s.BA = local.NewFlatBlobAccess(s.KLM, s.LBM, digest.KeyWithoutInstance, &s.Lock, "verif_psx", nil)

	if syncer {
		ctx, cancel := context.WithCancel(context.Background())
		s.cancel = cancel
		go func() {
			for {
				s.PS.ProcessBlockRelease()
				if s.dead.Load() {
					return
				}
				s.park("g2", Event{Kind: "returned"})
			}
		}()
		go func() {
			for {
				r := s.PS.ProcessBlockPut(ctx)
				s.park("g1", Event{Kind: "returned", Ret: r})
				if !r {
					return
				}
			}
		}()
	}
	return s, nil
}

// Kill abandons the store: its goroutines run to completion without parking again.
func (s *Store) Kill() {
	if s.dead.Swap(true) {
		return
	}
	if s.cancel != nil {
		s.cancel()
	}
	s.srcMu.Lock()
	if s.relGate != nil {
		select {
		case <-s.relGate:
		default:
			close(s.relGate)
		}
	}
	s.srcMu.Unlock()
	for _, c := range []chan Event{s.G1Ev, s.G2Ev, s.OpEv} {
		go func(c chan Event) {
			for e := range c {
				e.resume <- nil
			}
		}(c)
	}
}

// Cancel requests a graceful shutdown (the context of ProcessBlockPut).
func (s *Store) Cancel() { s.cancel() }

// Snapshot is what the medium holds right now.
type Snapshot struct {
	DataDur, IndexDur   []byte
	DataPend, IndexPend []PendWrite
	Dir                 DirMedium
}

func (s *Store) Snapshot() Snapshot {
	var sn Snapshot
	sn.DataDur, sn.DataPend = s.Data.Snapshot()
	sn.IndexDur, sn.IndexPend = s.Index.Snapshot()
	sn.Dir = s.Dir.Snapshot()
	return sn
}

// Crash materialises a post-crash medium. power == false is a process crash: the operating system
// still holds every write.
func (sn Snapshot) Crash(keepData, keepIdx []bool, pick int, leftover, power bool) Media {
	return Media{Data: Materialize(sn.DataDur, sn.DataPend, keepData), Index: Materialize(sn.IndexDur, sn.IndexPend, keepIdx),
		Dir: sn.Dir.Crash(pick, leftover, power)}
}

// G1Awake reports whether the put wake-up channel G1 holds has been closed (G1 then is, or soon will
// be, parked in NewTimer).
func (s *Store) G1Awake() bool {
	s.srcMu.Lock()
	c := s.g1Chan
	s.srcMu.Unlock()
	if c == nil {
		return false
	}
	select {
	case <-c:
		return true
	default:
		return false
	}
}

// G2Wanted reports whether the block list's release wake-up is unblocked.
func (s *Store) G2Wanted() bool {
	s.Lock.RLock()
	c := s.BL.GetBlockReleaseWakeup()
	s.Lock.RUnlock()
	select {
	case <-c:
		return true
	default:
		return false
	}
}

// OpenRelGate lets ProcessBlockRelease past its wake-up.
func (s *Store) OpenRelGate() {
	s.srcMu.Lock()
	close(s.relGate)
	s.srcMu.Unlock()
}

// AwaitPutWakeupFetch spins until G1 has fetched its wake-up channel n times.
func (s *Store) AwaitPutWakeupFetch(n int) bool {
	deadline := time.Now().Add(GateTimeout)
	for {
		s.srcMu.Lock()
		k := s.putWakeups
		s.srcMu.Unlock()
		if k >= n {
			return true
		}
		if time.Now().After(deadline) {
			return false
		}
		time.Sleep(10 * time.Microsecond)
	}
}

func (s *Store) PutWakeupFetches() int {
	s.srcMu.Lock()
	defer s.srcMu.Unlock()
	return s.putWakeups
}

// AwaitRelWakeupFetch spins until G2 has fetched its wake-up channel n times.
func (s *Store) AwaitRelWakeupFetch(n int) bool {
	deadline := time.Now().Add(GateTimeout)
	for {
		s.srcMu.Lock()
		k := s.relWakeups
		s.srcMu.Unlock()
		if k >= n {
			return true
		}
		if time.Now().After(deadline) {
			return false
		}
		time.Sleep(10 * time.Microsecond)
	}
}

func (s *Store) RelWakeupFetches() int {
	s.srcMu.Lock()
	defer s.srcMu.Unlock()
	return s.relWakeups
}
