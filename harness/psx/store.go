package psx

import (
	"context"
	"fmt"
	"runtime"
	"strconv"
	"strings"
	"sync"
	"sync/atomic"
	"time"

	"github.com/buildbarn/bb-storage/pkg/blobstore"
	"github.com/buildbarn/bb-storage/pkg/blobstore/buffer"
	"github.com/buildbarn/bb-storage/pkg/blobstore/local"
	"github.com/buildbarn/bb-storage/pkg/clock"
	"github.com/buildbarn/bb-storage/pkg/digest"
	pb "github.com/buildbarn/bb-storage/pkg/proto/blobstore/local"
)

// Config is the first line of a script:
// "#cfg <policy> <old> <cur> <new> <sector> <sectorsPerBlock> <spare> <records> <maxGet> <maxPut>".
type Config struct {
	Policy                  string // imm | mut
	Old, Cur, New           int
	Sector, SectorsPerBl    int
	Spare                   int
	Records, MaxGet, MaxPut int
}

func (c Config) BlockSize() int { return c.Sector * c.SectorsPerBl }
func (c Config) Slots() int     { return c.Old + c.Cur + c.New + c.Spare }
func (c Config) Line() string {
	return fmt.Sprintf("#cfg %s %d %d %d %d %d %d %d %d %d", c.Policy, c.Old, c.Cur, c.New, c.Sector, c.SectorsPerBl, c.Spare, c.Records, c.MaxGet, c.MaxPut)
}
func (c Config) InitLine() string {
	return fmt.Sprintf("init %s %d %d %d %d %d %d %d %d", c.Policy, c.Old, c.Cur, c.New, c.Sector, c.SectorsPerBl, c.Slots(), c.MaxGet, c.MaxPut)
}

func ParseConfig(line string) (Config, bool) {
	w := strings.Fields(line)
	if len(w) != 11 || w[0] != "#cfg" {
		return Config{}, false
	}
	n := func(i int) int { v, _ := strconv.Atoi(w[i]); return v }
	return Config{w[1], n(2), n(3), n(4), n(5), n(6), n(7), n(8), n(9), n(10)}, true
}

// Media is everything that survives the process.
type Media struct {
	Data  []byte
	Index []byte
	Dir   DirMedium
}

func FreshMedia(c Config) Media {
	return Media{Data: make([]byte, c.Slots()*c.BlockSize()), Index: make([]byte, c.Records*local.BlockDeviceBackedLocationRecordSize), Dir: DirMedium{Tmp: "absent"}}
}

// Event is a goroutine of the store parked at a gate. Resume it with an error to
// inject (nil = proceed).
type Event struct {
	Kind   string // timer | datasync | insync | synced | sw-begin | dir:<op> | sw-end | returned | allocated | copied
	State  *pb.PersistentState
	Ret    bool
	resume chan error
}

func (e Event) Resume(err error) { e.resume <- err }

type errLog struct {
	mu   sync.Mutex
	msgs []string
}

func (l *errLog) Log(err error) {
	l.mu.Lock()
	l.msgs = append(l.msgs, err.Error())
	l.mu.Unlock()
}

// Store is one running persistent store.
type Store struct {
	Cfg   Config
	Data  *CrashDevice
	Index *CrashDevice
	Dir   *SimDir
	BL    *local.PersistentBlockList
	LBM   *local.OldCurrentNewLocationBlobMap
	BA    blobstore.BlobAccess
	KLM   local.KeyLocationMap
	Lock  sync.RWMutex
	Log   *errLog
	PS    *local.PeriodicSyncer

	HashInit      uint64
	OldestEpoch   uint32
	InitialBlocks int
	FreshState    bool // no usable state file was found

	G1Ev, G2Ev, OpEv chan Event
	cancel           context.CancelFunc
	dead             atomic.Bool

	srcMu       sync.Mutex
	srcLog      []string      // calls on the PersistentStateSource, in order
	g1Chan      <-chan struct{} // the put wake-up channel G1 holds
	putWakeups  int
	relGate     chan struct{}
	relWakeups  int
	blockSlots  map[local.Block]int
	lastPutSlot int
	lastPutOff  int64
	// ordering oracle: has the device's Sync succeeded since the last NotifySyncStarting?
	syncOK         bool
	syncFailed     int    // failed Sync calls since the last NotifySyncStarting
	orderViolation string // set by NotifySyncCompleted when it was not preceded by a successful Sync
}

// SyncSucceeded is called by the data syncer when the device's Sync() returned nil.
func (s *Store) SyncSucceeded(ok bool) {
	s.srcMu.Lock()
	if ok {
		s.syncOK = true
	} else {
		s.syncFailed++
	}
	s.srcMu.Unlock()
}

// OrderViolation reports a NotifySyncCompleted that was not preceded by a successful device Sync
// issued after the matching NotifySyncStarting ("" = none so far).
func (s *Store) OrderViolation() string {
	s.srcMu.Lock()
	defer s.srcMu.Unlock()
	return s.orderViolation
}

// who tells which goroutine of the store is executing.
func who() string {
	pcs := make([]uintptr, 48)
	n := runtime.Callers(2, pcs)
	frames := runtime.CallersFrames(pcs[:n])
	for {
		f, more := frames.Next()
		if strings.Contains(f.Function, "ProcessBlockRelease") {
			return "g2"
		}
		if strings.Contains(f.Function, "ProcessBlockPut") {
			return "g1"
		}
		if !more {
			return "op"
		}
	}
}

func (s *Store) ch(w string) chan Event {
	switch w {
	case "g1":
		return s.G1Ev
	case "g2":
		return s.G2Ev
	}
	return s.OpEv
}

// park posts an event on the channel of the executing goroutine and waits.
func (s *Store) park(w string, e Event) error {
	if s.dead.Load() {
		return nil
	}
	e.resume = make(chan error, 1)
	s.ch(w) <- e
	return <-e.resume
}

// ---- clock

type fakeClock struct{ s *Store }
type fakeTimer struct{}

func (fakeTimer) Stop() bool                      { return true }
func (c fakeClock) Now() time.Time                { return time.Unix(1000, 0) }
func (c fakeClock) NewTicker(time.Duration) (clock.Ticker, <-chan time.Time) { panic("no tickers") }
func (c fakeClock) NewContextWithTimeout(p context.Context, d time.Duration) (context.Context, context.CancelFunc) {
	return context.WithCancel(p)
}

var errNoFire = fmt.Errorf("timer shall not fire")

// NewTimer parks; resumed with nil it returns a timer that has fired, with errNoFire one that never does.
func (c fakeClock) NewTimer(d time.Duration) (clock.Timer, <-chan time.Time) {
	t := make(chan time.Time, 1)
	if err := c.s.park(who(), Event{Kind: "timer"}); err == nil {
		t <- time.Unix(1001, 0)
	}
	return fakeTimer{}, t
}

// ---- PersistentStateSource wrapper

type source struct{ s *Store }

func (x source) log(m string) {
	x.s.srcMu.Lock()
	x.s.srcLog = append(x.s.srcLog, m)
	x.s.srcMu.Unlock()
}

func (x source) GetBlockReleaseWakeup() <-chan struct{} {
	x.s.srcMu.Lock()
	defer x.s.srcMu.Unlock()
	x.s.relGate = make(chan struct{})
	x.s.relWakeups++
	if x.s.dead.Load() {
		close(x.s.relGate)
	}
	return x.s.relGate
}

func (x source) GetBlockPutWakeup() <-chan struct{} {
	c := x.s.BL.GetBlockPutWakeup()
	x.s.srcMu.Lock()
	x.s.g1Chan = c
	x.s.putWakeups++
	x.s.srcMu.Unlock()
	return c
}

func (x source) NotifySyncStarting(final bool) {
	x.s.BL.NotifySyncStarting(final)
	x.s.srcMu.Lock()
	x.s.syncOK, x.s.syncFailed = false, 0
	x.s.srcMu.Unlock()
	x.log(fmt.Sprintf("start %v", final))
}
func (x source) NotifySyncCompleted() {
	x.s.srcMu.Lock()
	if !x.s.syncOK && x.s.orderViolation == "" && !x.s.dead.Load() {
		x.s.orderViolation = fmt.Sprintf("NotifySyncCompleted without a successful Sync() of the data device since NotifySyncStarting (%d failed Sync calls)", x.s.syncFailed)
	}
	x.s.srcMu.Unlock()
	x.s.BL.NotifySyncCompleted()
	x.log("completed")
}
func (x source) GetPersistentState() (uint32, []*pb.BlockState) {
	o, b := x.s.BL.GetPersistentState()
	x.log("getstate")
	return o, b
}
func (x source) NotifyPersistentStateWritten() { x.s.BL.NotifyPersistentStateWritten(); x.log("written") }

// SrcLogLen / SrcLogSince give access to the call log.
func (s *Store) SrcLogLen() int {
	s.srcMu.Lock()
	defer s.srcMu.Unlock()
	return len(s.srcLog)
}

// AwaitSrc waits until the call log has an entry `m` at or after position from (false: not within
// GateTimeout).
func (s *Store) AwaitSrc(from int, m string) bool {
	deadline := time.Now().Add(GateTimeout)
	for {
		s.srcMu.Lock()
		for _, x := range s.srcLog[min(from, len(s.srcLog)):] {
			if x == m {
				s.srcMu.Unlock()
				return true
			}
		}
		s.srcMu.Unlock()
		if time.Now().After(deadline) {
			return false
		}
		runtime.Gosched()
	}
}

// ---- PersistentStateStore wrapper

type stateStore struct {
	s    *Store
	real local.PersistentStateStore
}

func (x stateStore) ReadPersistentState() (*pb.PersistentState, error) { return x.real.ReadPersistentState() }
func (x stateStore) WritePersistentState(st *pb.PersistentState) error {
	if err := x.s.park(who(), Event{Kind: "sw-begin", State: st}); err != nil {
		return err
	}
	if err := x.real.WritePersistentState(st); err != nil {
		return err
	}
	// the state file is durable; NotifyPersistentStateWritten has not run yet
	x.s.park(who(), Event{Kind: "sw-end"})
	return nil
}

// ---- allocator wrapper: gates around the copy phase of every write

type gatedAllocator struct {
	s    *Store
	base local.BlockAllocator
}

type gatedBlock struct {
	local.Block
	s    *Store
	slot int
}

func (a gatedAllocator) wrap(b local.Block, l *pb.BlockLocation) local.Block {
	return gatedBlock{Block: b, s: a.s, slot: int(l.OffsetBytes) / a.s.Cfg.BlockSize()}
}

func (a gatedAllocator) NewBlock() (local.Block, *pb.BlockLocation, error) {
	b, l, err := a.base.NewBlock()
	if err != nil {
		return nil, nil, err
	}
	return a.wrap(b, l), l, nil
}

func (a gatedAllocator) NewBlockAtLocation(l *pb.BlockLocation, off int64) (local.Block, bool) {
	b, ok := a.base.NewBlockAtLocation(l, off)
	if !ok {
		return nil, false
	}
	return a.wrap(b, l), true
}

func (b gatedBlock) Put(size int64) local.BlockPutWriter {
	w := b.Block.Put(size)
	return func(buf buffer.Buffer) local.BlockPutFinalizer {
		b.s.park("op", Event{Kind: "allocated"})
		fin := w(buf)
		b.s.park("op", Event{Kind: "copied"})
		return func() (int64, error) {
			off, err := fin()
			b.s.srcMu.Lock()
			b.s.lastPutSlot, b.s.lastPutOff = b.slot, off
			b.s.srcMu.Unlock()
			return off, err
		}
	}
}

// LastPut is the (slot, offset) the most recently finalized write landed at.
func (s *Store) LastPut() (int, int64) {
	s.srcMu.Lock()
	defer s.srcMu.Unlock()
	return s.lastPutSlot, s.lastPutOff
}

var _ = digest.KeyWithoutInstance
