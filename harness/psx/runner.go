package psx

import (
	"bytes"
	"context"
	"crypto/sha256"
	"encoding/hex"
	"fmt"
	"strings"
	"time"

	remoteexecution "github.com/bazelbuild/remote-apis/build/bazel/remote/execution/v2"
	"github.com/buildbarn/bb-storage/pkg/blobstore/buffer"
	"github.com/buildbarn/bb-storage/pkg/blobstore/local"
	"github.com/buildbarn/bb-storage/pkg/digest"
	pb "github.com/buildbarn/bb-storage/pkg/proto/blobstore/local"
	"google.golang.org/grpc/codes"
	"google.golang.org/grpc/status"
	"google.golang.org/protobuf/proto"

	"verifharness/hx"
)

// Runner drives one real store and one model instance through a script.
type Runner struct {
	Cfg    Config
	Run    *hx.Run
	Model  *hx.Model
	St     *Store
	Case   string
	Script []string // concrete lines executed so far (first: #cfg)
	Impl   []string
	Mdl    []string
	Failed bool
	FailWhat string
	FailKind string // oracle | disagreement

	sizes    map[int]int     // object -> size
	declared map[string]bool // "<hashInit>/<obj>"
	ops      map[int]*opState
	Acked    map[int]bool // objects whose Put returned OK (in any lifetime)
	Tried    map[int]bool // objects ever offered

	g1pc         string // idle | started | syncing | synced | want | finished
	g1final      bool
	g1park       *Event
	iterShutdown bool
	cancelled    bool
	finalBegun   bool // NotifySyncStarting(true) has run
	swOwner      int
	swStage      int
	swPark       *Event
	g2retry      *Event
	g1queued     bool
	g2queued     bool // ProcessBlockRelease woke up while ProcessBlockPut holds storeLock
	drained      bool // oracle-only: the store left the expected protocol and was driven to the end of a shutdown
	// Hold: keep the finding of this case back (Held) instead of reporting it at once
	Hold bool
	Held *hx.Finding
	// bookkeeping for C03: did an upload/refresh happen since the last commit by G1 started
	dirtySinceCommitStart bool
	commitInProgress      bool
	CommitClean           bool // a commit completed and nothing was written since it started
}

type opState struct {
	obj   int
	kind  string
	done  chan opResult
	park  *Event
	stage string // allocated | copied
}

type opResult struct {
	reply string
	data  []byte
}

func NewRunner(run *hx.Run, model *hx.Model, caseName string, cfg Config, hashInit uint64) (*Runner, error) {
	r := &Runner{Cfg: cfg, Run: run, Model: model, Case: caseName, sizes: map[int]int{}, declared: map[string]bool{},
		ops: map[int]*opState{}, Acked: map[int]bool{}, Tried: map[int]bool{}, g1pc: "idle"}
	m := FreshMedia(cfg)
	// the draws of the hash initialisation for starts without a state file: a function of the case only
	base, draws := uint64(1469598103934665603), uint64(0)
	for _, ch := range []byte(cfg.Line()) {
		base = (base ^ uint64(ch)) * 1099511628211
	}
	FreshInit = func() uint64 {
		draws++
		z := base + draws*0x9e3779b97f4a7c15
		z = (z ^ (z >> 30)) * 0xbf58476d1ce4e5b9
		z = (z ^ (z >> 27)) * 0x94d049bb133111eb
		return (z ^ (z >> 31)) | 1
	}
	if hashInit != 0 {
		st, _ := proto.Marshal(&pb.PersistentState{OldestEpochId: 1, KeyLocationMapHashInitialization: hashInit})
		m.Dir.State = st
	}
	s, err := NewStore(cfg, m, true)
	if err != nil {
		return nil, err
	}
	r.St = s
	r.Script = []string{cfg.Line() + fmt.Sprintf(" %d", hashInit)}
	r.model(cfg.InitLine())
	s.AwaitPutWakeupFetch(1)
	s.AwaitRelWakeupFetch(1)
	return r, nil
}

func (r *Runner) model(line string) string {
	if r.Model == nil {
		return ""
	}
	return r.Model.Step(line)
}

// Content of an object: deterministic, distinct per object.
func (r *Runner) Content(obj int) []byte {
	b := make([]byte, r.sizes[obj])
	for i := range b {
		b[i] = byte(obj*37 + i*13 + 5)
	}
	// make the content unique per object even for equal sizes
	if len(b) > 0 {
		b[0] = byte(obj)
	}
	if len(b) > 1 {
		b[1] = byte(obj >> 8)
	}
	return b
}

func (r *Runner) Digest(obj int) digest.Digest {
	h := sha256.Sum256(r.Content(obj))
	return digest.MustNewDigest("", remoteexecution.DigestFunction_SHA256, hex.EncodeToString(h[:]), int64(r.sizes[obj]))
}

func (r *Runner) key(obj int) local.Key {
	return local.NewKeyFromString(r.Digest(obj).GetKey(digest.KeyWithoutInstance))
}

// declare tells the model the real index slots of an object's key under the current hash initialisation.
func (r *Runner) declare(st *Store, obj int) {
	id := fmt.Sprintf("%d/%d", st.HashInit, obj)
	if r.declared[id] {
		return
	}
	r.declared[id] = true
	k := r.key(obj)
	for a := 0; a < r.Cfg.MaxGet; a++ {
		rk := local.LocationRecordKey{Key: k, Attempt: uint32(a)}
		r.model(fmt.Sprintf("slot %d %d %d", obj, a, rk.Hash(st.HashInit)%uint64(r.Cfg.Records)))
	}
}

// Code canonicalises an error.
func Code(err error) string {
	switch status.Code(err) {
	case codes.OK:
		return "ok"
	case codes.NotFound:
		return "not-found"
	case codes.Internal:
		if strings.Contains(err.Error(), "already been released") {
			return "err internal"
		}
		return "err integrity"
	case codes.Unavailable:
		return "err unavailable"
	case codes.InvalidArgument:
		return "err invalid-argument"
	}
	return "err " + status.Code(err).String()
}

func (r *Runner) fail(kind, what, detail string) {
	r.Failed = true
	r.FailWhat, r.FailKind = what, kind
	f := hx.Finding{Kind: kind, What: what, Detail: detail, Case: r.Case, Script: append([]string{}, r.Script...),
		Impl: append([]string{}, r.Impl...), Model: append([]string{}, r.Mdl...)}
	if r.Hold {
		// the caller shrinks the script first and reports the smaller of the two (ReportHeld)
		r.Held = &f
		return
	}
	r.Run.Report(f)
}

// ReportHeld reports the finding of a case run with Hold, unless the shrunk replay `small` (nil: none)
// reproduced it - that one has been reported by its own run then and comes first in the result.
func (r *Runner) ReportHeld(small *Runner) {
	if r.Held == nil {
		return
	}
	if small != nil && small.Failed && small.FailWhat == r.FailWhat {
		return
	}
	r.Run.Report(*r.Held)
	r.Held = nil
}

// expect waits for the next event on ch; it must be of one of the kinds.
func (r *Runner) expect(ch chan Event, kinds ...string) (Event, bool) {
	select {
	case e := <-ch:
		for _, k := range kinds {
			if e.Kind == k {
				return e, true
			}
		}
		if r.Model == nil && (ch == r.St.G1Ev || ch == r.St.G2Ev) {
			r.deviate(fmt.Sprintf("got %s, want one of %v", e.Kind, kinds), &e)
			return e, false
		}
		r.fail("disagreement", "harness: unexpected event from the store", fmt.Sprintf("got %s, want one of %v", e.Kind, kinds))
		return e, false
	case <-time.After(GateTimeout):
		if r.Model == nil && (ch == r.St.G1Ev || ch == r.St.G2Ev) {
			r.deviate(fmt.Sprintf("no gate, want one of %v", kinds), nil)
			return Event{}, false
		}
		r.fail("disagreement", "harness: the store did not reach the expected gate", fmt.Sprintf("want one of %v", kinds))
		return Event{}, false
	}
}

// record notes one compared reply pair.
func (r *Runner) record(line, impl, mdl string) {
	r.Impl = append(r.Impl, line+" => "+impl)
	r.Mdl = append(r.Mdl, line+" => "+mdl)
	r.Run.Compared(1)
	if r.Model != nil && impl != mdl && !r.Failed {
		r.fail("disagreement", "persistence model and implementation differ on a step", fmt.Sprintf("%s: impl %q model %q", line, impl, mdl))
	}
}

func renderState(st *pb.PersistentState, blockSize int) string {
	var b strings.Builder
	fmt.Fprintf(&b, "state %d", st.OldestEpochId)
	for _, bs := range st.Blocks {
		fmt.Fprintf(&b, " %d:%d:%d", int(bs.BlockLocation.OffsetBytes)/blockSize, bs.WriteOffsetBytes, len(bs.EpochHashSeeds))
	}
	return b.String()
}

// pendLine renders the pending writes of the real devices like the model's `pend`.
func (r *Runner) pendLine(sn Snapshot) string {
	var b strings.Builder
	b.WriteString("data")
	for _, w := range sn.DataPend {
		fmt.Fprintf(&b, " %d.%d", int(w.Off)/r.Cfg.BlockSize(), int(w.Off)%r.Cfg.BlockSize()/r.Cfg.Sector)
	}
	b.WriteString(" idx")
	for _, w := range sn.IndexPend {
		fmt.Fprintf(&b, " %d", int(w.Off)/local.BlockDeviceBackedLocationRecordSize)
	}
	return b.String()
}

// CheckPend compares the pending write sequences of both sides.
func (r *Runner) CheckPend() Snapshot {
	sn := r.St.Snapshot()
	if r.Model != nil {
		r.record("pend", r.pendLine(sn), r.model("pend"))
	}
	return sn
}

// ---------------------------------------------------------------- operations

func (r *Runner) startOp(n, obj int, kind string) *opState {
	op := &opState{obj: obj, kind: kind, done: make(chan opResult, 1)}
	r.ops[n] = op
	st := r.St
	d := r.Digest(obj)
	go func() {
		switch kind {
		case "put":
			err := st.BA.Put(context.Background(), d, buffer.NewCASBufferFromByteSlice(d, r.Content(obj), buffer.UserProvided))
			op.done <- opResult{reply: Code(err)}
		case "get":
			data, err := st.BA.Get(context.Background(), d).ToByteSlice(1 << 20)
			if err != nil {
				op.done <- opResult{reply: Code(err)}
			} else {
				op.done <- opResult{reply: "data", data: data}
			}
		case "fm":
			missing, err := st.BA.FindMissing(context.Background(), d.ToSingletonSet())
			switch {
			case err != nil:
				op.done <- opResult{reply: Code(err)}
			case missing.Length() > 0:
				op.done <- opResult{reply: "missing"}
			default:
				op.done <- opResult{reply: "present"}
			}
		}
	}()
	return op
}

// advance waits until the operation parks at its next gate or finishes.
func (r *Runner) advance(op *opState) (res opResult, finished, ok bool) {
	select {
	case e := <-r.St.OpEv:
		op.park = &e
		op.stage = e.Kind
		return opResult{}, false, true
	case res := <-op.done:
		op.park = nil
		return res, true, true
	case <-time.After(GateTimeout):
		r.fail("disagreement", "harness: an operation neither finished nor reached a gate", op.kind)
		return opResult{}, false, false
	}
}

func (r *Runner) dataReply(obj int, res opResult) string {
	if res.reply != "data" {
		return res.reply
	}
	if bytes.Equal(res.data, r.Content(obj)) {
		return fmt.Sprintf("data %d", obj)
	}
	return "data ?"
}

// GateTimeout bounds the wait for a goroutine of the store to reach its next gate (shrinking
// lowers it: a shrunk script may ask for steps the store cannot take).
var GateTimeout = 10 * time.Second

// FreshInit, when set, replaces the hash initialisation a store without a state file draws from the
// crypto generator (set per case by NewRunner; cases run one at a time).
var FreshInit func() uint64
