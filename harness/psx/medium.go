// Package psx assembles a real *persistent* local store exactly as
// new_blob_access.go does (block device backed allocator, PersistentBlockList,
// PeriodicSyncer, DirectoryBackedPersistentStateStore, block device backed
// location record array, hashing key-location map, flat blob access) over a
// crashable medium, lets the harness decide the order of uploads, syncer steps
// and directory operations, mirrors every step to the Lean persistence model
// and checks the statements of C02/C03 on what it observes.
package psx

import (
	"fmt"
	"io"
	"os"
	"sync"
	"syscall"
	"time"

	"github.com/buildbarn/bb-storage/pkg/filesystem"
	"github.com/buildbarn/bb-storage/pkg/filesystem/path"
)

// PendWrite is one atomic unit of a device write that is not known to be durable.
type PendWrite struct {
	Off     int64
	Data    []byte
	Covered bool // issued before the Sync in progress began
}

// CrashDevice is a simulated blockdevice.BlockDevice: the content the running
// process sees, the durable content, and the writes in between. A WriteAt is
// split into units of Unit bytes (sectors of the data device; 0 = the whole
// write is one unit, used for the index device where a record write is lost or
// kept as a whole).
type CrashDevice struct {
	mu      sync.Mutex
	Cur     []byte
	Dur     []byte
	Pending []PendWrite
	Unit    int
	Writes  int
	// InSync, when set, is called inside Sync after the covered writes were marked; it returns the
	// error Sync shall return (nil = the covered writes become durable).
	InSync func() error
}

func NewCrashDevice(content []byte, unit int) *CrashDevice {
	return &CrashDevice{Cur: append([]byte(nil), content...), Dur: append([]byte(nil), content...), Unit: unit}
}

func (d *CrashDevice) ReadAt(p []byte, off int64) (int, error) {
	d.mu.Lock()
	defer d.mu.Unlock()
	if off < 0 || off > int64(len(d.Cur)) {
		return 0, fmt.Errorf("crashdevice: read at %d out of range", off)
	}
	n := copy(p, d.Cur[off:])
	if n < len(p) {
		return n, io.EOF
	}
	return n, nil
}

func (d *CrashDevice) WriteAt(p []byte, off int64) (int, error) {
	d.mu.Lock()
	defer d.mu.Unlock()
	if off < 0 || off+int64(len(p)) > int64(len(d.Cur)) {
		return 0, fmt.Errorf("crashdevice: write at %d+%d out of range (%d)", off, len(p), len(d.Cur))
	}
	copy(d.Cur[off:], p)
	if d.Unit <= 0 {
		d.Pending = append(d.Pending, PendWrite{Off: off, Data: append([]byte(nil), p...)})
	} else {
		if off%int64(d.Unit) != 0 || len(p)%d.Unit != 0 {
			return 0, fmt.Errorf("crashdevice: unaligned write at %d+%d (unit %d)", off, len(p), d.Unit)
		}
		for i := 0; i < len(p); i += d.Unit {
			d.Pending = append(d.Pending, PendWrite{Off: off + int64(i), Data: append([]byte(nil), p[i:i+d.Unit]...)})
		}
	}
	d.Writes++
	return len(p), nil
}

// Sync makes durable what was written before it was entered, nothing else.
func (d *CrashDevice) Sync() error {
	d.mu.Lock()
	for i := range d.Pending {
		d.Pending[i].Covered = true
	}
	hook := d.InSync
	d.mu.Unlock()
	var err error
	if hook != nil {
		err = hook()
	}
	d.mu.Lock()
	defer d.mu.Unlock()
	if err != nil {
		for i := range d.Pending {
			d.Pending[i].Covered = false
		}
		return err
	}
	var rest []PendWrite
	for _, w := range d.Pending {
		if w.Covered {
			copy(d.Dur[w.Off:], w.Data)
		} else {
			rest = append(rest, w)
		}
	}
	d.Pending = rest
	return nil
}

func (d *CrashDevice) Close() error { return nil }

// Snapshot returns the durable content and a copy of the pending writes.
func (d *CrashDevice) Snapshot() ([]byte, []PendWrite) {
	d.mu.Lock()
	defer d.mu.Unlock()
	return append([]byte(nil), d.Dur...), append([]PendWrite(nil), d.Pending...)
}

// Materialize is the content of the medium after a crash in which exactly the
// pending writes with keep[i] reached it (writes beyond len(keep) are lost).
func Materialize(dur []byte, pending []PendWrite, keep []bool) []byte {
	out := append([]byte(nil), dur...)
	for i, w := range pending {
		if i < len(keep) && keep[i] {
			copy(out[w.Off:], w.Data)
		}
	}
	return out
}

// ---------------------------------------------------------------- state directory

// DirMedium is what the medium holds of the state directory.
type DirMedium struct {
	State   []byte   // durable content of "state" (nil = absent)
	Renamed [][]byte // contents renamed over "state" since the last directory fsync
	Synced  []bool   // per rename: was the content fsynced before the rename
	Tmp     string   // state.new: "absent" | "empty" | "written" | "synced"
	TmpData []byte
}

func (m DirMedium) Clone() DirMedium {
	c := DirMedium{Tmp: m.Tmp, TmpData: append([]byte(nil), m.TmpData...)}
	if m.State != nil {
		c.State = append([]byte{}, m.State...)
	}
	for _, r := range m.Renamed {
		c.Renamed = append(c.Renamed, append([]byte{}, r...))
	}
	c.Synced = append([]bool(nil), m.Synced...)
	return c
}

// Candidates are the contents of "state" a restart may find (nil = absent). After a power
// failure a renamed file whose content was never fsynced may be empty; after a process crash the
// operating system still has everything.
func (m DirMedium) Candidates(power bool) [][]byte {
	c := [][]byte{m.State}
	for i, r := range m.Renamed {
		if power && !m.Synced[i] {
			r = []byte{}
		}
		c = append(c, r)
	}
	return c
}

// Crash picks a candidate; a stale state.new may be left behind.
func (m DirMedium) Crash(pick int, leftover, power bool) DirMedium {
	c := m.Candidates(power)
	out := DirMedium{Tmp: "absent"}
	if pick < len(c) {
		out.State = c[pick]
	} else {
		out.State = m.State
	}
	if leftover && m.Tmp != "absent" {
		out.Tmp = "empty"
	}
	return out
}

// SimDir implements the part of filesystem.Directory that
// DirectoryBackedPersistentStateStore uses. Every operation first calls Gate
// (which may park the calling goroutine or return an injected error).
type SimDir struct {
	filesystem.Directory // nil: every other method panics

	mu   sync.Mutex
	M    DirMedium
	Gate func(op string) error
	Ops  []string
}

func NewSimDir(m DirMedium) *SimDir {
	if m.Tmp == "" {
		m.Tmp = "absent"
	}
	return &SimDir{M: m}
}

func (d *SimDir) gate(op string) error {
	d.mu.Lock()
	d.Ops = append(d.Ops, op)
	g := d.Gate
	d.mu.Unlock()
	if g != nil {
		return g(op)
	}
	return nil
}

func (d *SimDir) Snapshot() DirMedium {
	d.mu.Lock()
	defer d.mu.Unlock()
	return d.M.Clone()
}

type simReader struct{ data []byte }

func (r simReader) ReadAt(p []byte, off int64) (int, error) {
	if off >= int64(len(r.data)) {
		return 0, io.EOF
	}
	n := copy(p, r.data[off:])
	if n < len(p) {
		return n, io.EOF
	}
	return n, nil
}
func (r simReader) Close() error { return nil }
func (r simReader) GetNextRegionOffset(off int64, t filesystem.RegionType) (int64, error) {
	return 0, io.EOF
}
func (r simReader) Len() (int64, error) { return int64(len(r.data)), nil }

func (d *SimDir) OpenRead(name path.Component) (filesystem.FileReader, error) {
	d.mu.Lock()
	defer d.mu.Unlock()
	if name.String() != "state" {
		return nil, fmt.Errorf("simdir: unexpected OpenRead(%s)", name)
	}
	// the running system sees the latest rename
	data := d.M.State
	if n := len(d.M.Renamed); n > 0 {
		data = d.M.Renamed[n-1]
	}
	if data == nil {
		return nil, &os.PathError{Op: "open", Path: "state", Err: syscall.ENOENT}
	}
	return simReader{append([]byte{}, data...)}, nil
}

func (d *SimDir) Remove(name path.Component) error {
	if name.String() != "state.new" {
		return fmt.Errorf("simdir: unexpected Remove(%s)", name)
	}
	if err := d.gate("remove"); err != nil {
		return err
	}
	d.mu.Lock()
	defer d.mu.Unlock()
	if d.M.Tmp == "absent" {
		return &os.PathError{Op: "remove", Path: "state.new", Err: syscall.ENOENT}
	}
	d.M.Tmp, d.M.TmpData = "absent", nil
	return nil
}

type simAppender struct{ d *SimDir }

func (a simAppender) Write(p []byte) (int, error) {
	if err := a.d.gate("write"); err != nil {
		return 0, err
	}
	a.d.mu.Lock()
	defer a.d.mu.Unlock()
	a.d.M.TmpData = append(a.d.M.TmpData, p...)
	a.d.M.Tmp = "written"
	return len(p), nil
}

func (a simAppender) Sync() error {
	if err := a.d.gate("fsync"); err != nil {
		return err
	}
	a.d.mu.Lock()
	defer a.d.mu.Unlock()
	if a.d.M.Tmp == "written" {
		a.d.M.Tmp = "synced"
	}
	return nil
}

func (a simAppender) Close() error { return nil }

func (d *SimDir) OpenAppend(name path.Component, mode filesystem.CreationMode) (filesystem.FileAppender, error) {
	if name.String() != "state.new" {
		return nil, fmt.Errorf("simdir: unexpected OpenAppend(%s)", name)
	}
	if err := d.gate("create"); err != nil {
		return nil, err
	}
	d.mu.Lock()
	defer d.mu.Unlock()
	if d.M.Tmp != "absent" {
		return nil, &os.PathError{Op: "open", Path: "state.new", Err: syscall.EEXIST}
	}
	d.M.Tmp, d.M.TmpData = "empty", nil
	return simAppender{d}, nil
}

func (d *SimDir) Rename(oldName path.Component, newDir filesystem.Directory, newName path.Component) error {
	if oldName.String() != "state.new" || newName.String() != "state" || newDir != filesystem.Directory(d) {
		return fmt.Errorf("simdir: unexpected Rename(%s, %s)", oldName, newName)
	}
	if err := d.gate("rename"); err != nil {
		return err
	}
	d.mu.Lock()
	defer d.mu.Unlock()
	if d.M.Tmp == "absent" {
		return &os.PathError{Op: "rename", Path: "state.new", Err: syscall.ENOENT}
	}
	d.M.Renamed = append(d.M.Renamed, append([]byte{}, d.M.TmpData...))
	d.M.Synced = append(d.M.Synced, d.M.Tmp == "synced")
	d.M.Tmp, d.M.TmpData = "absent", nil
	return nil
}

func (d *SimDir) Sync() error {
	if err := d.gate("dirsync"); err != nil {
		return err
	}
	d.mu.Lock()
	defer d.mu.Unlock()
	if n := len(d.M.Renamed); n > 0 {
		d.M.State = d.M.Renamed[n-1]
		d.M.Renamed, d.M.Synced = nil, nil
	}
	return nil
}

var _ = time.Now
