package psx

import (
	"fmt"
	"time"
)

// tryResume releases a parked goroutine; a park that was released before is left alone.
func (e Event) tryResume(err error) {
	select {
	case e.resume <- err:
	default:
	}
}

// dirGate waits for the next gate of the state writer in progress. With the model attached it has
// to be `want` (the order WritePersistentState is known to use). Oracle-only, the writer may touch
// the directory in any order and any number of times: every directory operation and the end of
// WritePersistentState are accepted, the schedule goes on (rotations, uploads, crashes with the
// loss subsets the simulated directory admits for what the code really did), and the read-back
// oracle decides.
func (r *Runner) dirGate(ch chan Event, want string) (Event, bool) {
	if r.Model != nil {
		return r.expect(ch, want)
	}
	e, ok := r.expect(ch, dirOps...)
	if ok && e.Kind != want {
		r.Run.Count("state directory protocol deviation: got " + e.Kind + ", want " + want)
	}
	return e, ok
}

// queuedRelease: storeLock has just been released by ProcessBlockPut; a ProcessBlockRelease that
// woke up meanwhile (g2.wake) takes it and arrives at its state write.
func (r *Runner) queuedRelease() {
	if !r.g2queued || r.Failed || r.drained {
		return
	}
	r.g2queued = false
	if b, ok := r.expect(r.St.G2Ev, "sw-begin"); ok {
		r.swBegun(2, b)
	}
}

// AwaitSrcFor waits at most d for a call-log entry `m` at or after position from.
func (s *Store) AwaitSrcFor(from int, m string, d time.Duration) bool {
	deadline := time.Now().Add(d)
	for {
		s.srcMu.Lock()
		for _, x := range s.srcLog[min(from, len(s.srcLog)):] {
			if x == m {
				s.srcMu.Unlock()
				return true
			}
		}
		s.srcMu.Unlock()
		if time.Now().After(deadline) {
			return false
		}
		time.Sleep(20 * time.Microsecond)
	}
}

// WhatSyncOrder is the ordering oracle (it needs no crash): the epochs and offsets that
// NotifySyncCompleted exposes to the next state file are durable only if the device's Sync()
// succeeded after the matching NotifySyncStarting.
const WhatSyncOrder = "a failed data sync was treated as completed: NotifySyncCompleted was not preceded by a successful Sync() issued after NotifySyncStarting"

// checkOrder raises the ordering oracle if the store tripped it.
func (r *Runner) checkOrder() bool {
	if r.Failed || r.St == nil {
		return false
	}
	if v := r.St.OrderViolation(); v != "" {
		r.fail("oracle", WhatSyncOrder, v)
		return true
	}
	return false
}

// PowerLoss is the medium after a power failure that loses every unsynchronised sector of the data
// device and every rename not yet made durable, while the index device (which is never
// synchronised) happens to keep its records: the most hostile admissible medium for an object
// the state file vouches for.
func PowerLoss(sn Snapshot) Choice {
	c := Choice{Data: make([]bool, len(sn.DataPend)), Idx: make([]bool, len(sn.IndexPend)), Pick: 0, Power: true}
	for i := range c.Idx {
		c.Idx[i] = true
	}
	return c
}

// afterShutdown runs the read-back oracles once ProcessBlockPut has returned false: a restart from
// the medium as the operating system holds it, and a restart after a power loss; everything the
// store could look up when the shutdown completed has to be readable both times.
func (r *Runner) afterShutdown() {
	if r.checkOrder() {
		return
	}
	sn := r.St.Snapshot()
	r.Run.Count("shutdown-fork")
	r.Fork(sn, AllKept(sn, false), true)
	r.Run.Count("shutdown-powerloss-fork")
	r.Fork(sn, PowerLoss(sn), true)
}

// Drained reports whether the runner gave up following the syncer step by step (see drain).
func (r *Runner) Drained() bool { return r.drained }

// deviate is called, in oracle-only mode, when the real store arrives at a gate the runner does not
// expect there (or at none): the protocol of the code under test is not the one the runner knows.
// The case is not abandoned: the store is driven to the end of a graceful shutdown whatever its
// protocol is, and the read-back oracle decides.
func (r *Runner) deviate(why string, stray *Event) {
	if r.drained || r.Failed {
		return
	}
	r.drain(why, stray)
}

// drain releases every gate either syncer goroutine arrives at until ProcessBlockPut has returned
// false (bounded), then restarts from the medium as the operating system holds it: every upload
// the running store could look up when the shutdown completed has to be readable, with the bytes
// that were uploaded.
func (r *Runner) drain(why string, stray *Event) {
	r.drained = true
	r.Run.Count("protocol deviation: " + why)
	if !r.cancelled {
		r.cancelled = true
		r.St.Cancel()
	}
	for _, p := range []*Event{stray, r.g1park, r.swPark, r.g2retry} {
		if p != nil {
			p.tryResume(nil)
		}
	}
	r.g1park, r.swPark, r.g2retry, r.swOwner, r.g1queued, r.g2queued = nil, nil, nil, 0, false, false
	finished := false
	quiet := GateTimeout
	if quiet > 3*time.Second {
		quiet = 3 * time.Second
	}
	for n := 0; n < 600 && !finished; n++ {
		select {
		case e := <-r.St.G1Ev:
			if e.Kind == "returned" && !e.Ret {
				finished = true
			}
			e.Resume(nil)
		case e := <-r.St.G2Ev:
			e.Resume(nil)
		case <-time.After(quiet):
			n = 600
		}
	}
	if !finished {
		r.fail("oracle", "graceful shutdown does not complete", "after the store left the expected protocol ("+why+")")
		return
	}
	r.g1pc, r.finalBegun = "finished", true
	// let ProcessBlockRelease finish what it was doing (it may hold a state file half written)
	for idle := false; !idle; {
		select {
		case e := <-r.St.G2Ev:
			e.Resume(nil)
		case <-time.After(20 * time.Millisecond):
			idle = true
		}
	}
	r.Run.Count("shutdown completed after deviation")
	r.afterShutdown()
	if !r.Failed {
		r.Impl = append(r.Impl, fmt.Sprintf("deviation (%s): shutdown driven to completion, read-back clean", why))
		r.Mdl = append(r.Mdl, "-")
	}
}
